"""C07 - each built-in loss computes its published definition (option plumbing, constants, encoding)."""
from __future__ import annotations

import ast

from ..cfg import CFG
from ..errors import AnalysisError
from ..model import ClassInfo, FuncInfo, dotted, mangle, src, walk_scope
from ..report import Context
from ..util import path_forms, assigned_value, calls_in, dep_leaves, expand_forms, is_self_attr, kwarg, normaliser, parse_expr, reaching_events, returns_of
from . import c08
from .c08 import loss_classes, reachable_in_class

LEVEL_TEXT = (
    "Static analysis of black_it/loss_functions (no execution): (R1) every constructor option of every loss class flows "
    "to an attribute or to the base-class constructor and every such attribute is read on the compute path (so no option "
    "is accepted and dropped); (R2) default coordinate weights are ones(D)/D; (R3) the scalar structure of each "
    "definition is compared, as a rational normal form with locals inlined, with the published formula written once in "
    "the rule table - GSL-div weight step 2/(L(L+1)), correction ((|m|-1)-(|s|-1))/(2T), combination 2H(m)-H(s)+corr, "
    "entropy base b^l, plain mean over members, default b and L; kernel likelihood 1/D scaling, Gaussian kernel "
    "normalisation h^d (2 pi)^(d/2), Silverman and Scott rules; Fourier sqrt(sum|.|^2/n_freq) of the mean filtered "
    "spectrum; Minkowski distance of the member mean; MSM g = m(real) - mean_e m(sim_e), g.g, g.W.g with W = "
    "diag(1/mean_e (m(real)-m(sim_e))^2), standardisation by |m(real)|; (R4) the positional packing of words must be "
    "injective for the alphabet in use. The numerical value of a loss and the array pipelines (FFT, moments, entropies) "
    "are not decided."
    ' Included from C08: a loss class that overrides compute_loss must keep the base pipeline order (filters before aggregation), and values returned by user-supplied callables (moment calculators) are not modified in place.'
    ' Per-coordinate callables built in a loop / comprehension must not capture the iteration variable late (shared with C08).'
    " Formula rules withhold a mismatch (undecided) when the function now calls something its reference version never mentioned - the normal form may simply not open the new idiom."
)
TECHNIQUE = "option-plumbing dataflow + rational normal forms against a published-formula table (path-sensitive forward substitution for MSM and the likelihood pipeline) + radix/alphabet rule"


def run(ctx: Context) -> None:
    ctx.rule(r1_options)
    ctx.rule(r3_minkowski)
    ctx.rule(r3_msm)
    ctx.rule(r3_fourier)
    ctx.rule(r3_gsl)
    ctx.rule(r3_likelihood)
    ctx.rule(r4_word_packing)
    # R2 default weights 1/D and validation (shared with C08-R4); R5 options are not overwritten while evaluating (shared with C08-R2)
    ctx.rule(c08.r4_validation)
    ctx.rule(c08.r2_no_state)
    ctx.rule(c08.r3_weighted_sum)
    # how members are combined and filters applied is BaseLoss.compute_loss's business: a loss that overrides it changes the documented definition
    ctx.rule(c08.r5_siblings)
    ctx.rule(c08.r1b_user_results)
    ctx.rule(c08.late_binding_rule)
    ctx.rule(dtype_rule)


# ---------------------------------------------------------------------------------------------- R1
def r1_options(ctx: Context) -> None:
    prog = ctx.prog
    n_params = 0
    for c in loss_classes(ctx):
        init = c.methods.get("__init__")
        if init is None:
            continue
        ctx.analysed(init)
        compute = reachable_in_class(ctx, c, ["compute_loss", "compute_loss_1d"])
        read_attrs: set[str] = set()
        for f in compute:
            for x in ast.walk(f.node):
                if isinstance(x, ast.Attribute) and isinstance(x.ctx, ast.Load) and isinstance(x.value, ast.Name) and x.value.id == f.self_name:
                    read_attrs.add(x.attr)
        # getters expose private attributes
        for k in prog.mro(c):
            for gname, g in k.getters.items():
                if gname in read_attrs:
                    for x in ast.walk(g.node):
                        if isinstance(x, ast.Attribute) and isinstance(x.value, ast.Name) and x.value.id == g.self_name:
                            read_attrs.add(x.attr)
        sup_calls = [cl for cl in calls_in(init.node) if isinstance(cl.func, ast.Attribute) and cl.func.attr == "__init__" and
                     ((isinstance(cl.func.value, ast.Call) and dotted(cl.func.value.func) == "super") or (dotted(cl.func.value) or "") in [b for b in c.base_names])]
        base_init = None
        for k in prog.mro(c)[1:]:
            if "__init__" in k.methods:
                base_init = k.methods["__init__"]
                break
        for p in init.bound_params:
            n_params += 1
            stored = []
            for s in walk_scope(init.node):
                if isinstance(s, (ast.Assign, ast.AnnAssign)):
                    tgt = s.targets[0] if isinstance(s, ast.Assign) else s.target
                    if s.value is not None and is_self_attr(tgt, init.self_name) and f"param:{p}" in dep_leaves(prog, init, s.value):
                        stored.append(tgt.attr)  # type: ignore[union-attr]
            forwarded = []
            for cl in sup_calls:
                for i, a in enumerate(cl.args):
                    if f"param:{p}" in dep_leaves(prog, init, a) and base_init is not None and i < len(base_init.bound_params):
                        forwarded.append(base_init.bound_params[i])
                for k in cl.keywords:
                    if k.arg and f"param:{p}" in dep_leaves(prog, init, k.value):
                        forwarded.append(k.arg)
            ok = bool(stored) or bool(forwarded)
            ctx.check(ok, "R1.option-kept", f"{c.name}.__init__:{p}", f"{c.name}({p}=...) is stored ({stored}) or handed to the base class ({forwarded})",
                      f"{c.name}.__init__ accepts `{p}` and drops it: the option never reaches the computation", init, init.node)
            if stored:
                used = [a for a in stored if a in read_attrs]
                ctx.check(bool(used), "R1.option-used", f"{c.name}.{stored[0]}:read", f"{c.name}.{stored[0]} is read on the compute path",
                          f"{c.name} stores option `{p}` in {stored} but nothing reachable from compute_loss reads it", init, init.node)
            if forwarded and base_init is not None and not stored:
                ok2 = all(fw in base_init.bound_params for fw in forwarded) and (p in forwarded or len(set(forwarded)) == 1)
                same_role = p in forwarded
                ctx.check(same_role, "R1.option-role", f"{c.name}.__init__:{p}->base", f"`{p}` is forwarded to the base-class parameter of the same role",
                          f"`{p}` is forwarded to base-class parameter(s) {forwarded}: weights and filters are crossed", init, sup_calls[0] if sup_calls else init.node)
    ctx.floor("R1", "constructor options of loss classes", n_params, 18)


# ---------------------------------------------------------------------------------------------- helpers
def _assigned(f: FuncInfo, name: str) -> list[ast.expr]:
    out = []
    for s in walk_scope(f.node):
        if isinstance(s, ast.Assign) and any(isinstance(t, ast.Name) and t.id == name for t in s.targets):
            out.append(s.value)
        elif isinstance(s, ast.AnnAssign) and isinstance(s.target, ast.Name) and s.target.id == name and s.value is not None:
            out.append(s.value)
    return out


def _eq_any(n, expr: ast.expr, forms: list[str]) -> bool:
    got = n.rat(expr)
    for t in forms:
        w = n.rat(parse_expr(t))
        if got.equals(w) or str(got) == str(w):
            return True
    return False


def _check_returns(ctx: Context, f: FuncInfo, rule: str, key: str, what: str, forms: list[str], n=None) -> None:
    n = n or normaliser(ctx.prog, f)
    rets = returns_of(f)
    ctx.floor(rule.split(".")[0], f"return in {f.name}", len(rets), 1)
    for r in rets:
        ok = r.value is not None and _eq_any(n, r.value, forms)
        ctx.check(ok, rule, key, what, f"{f.qualname.split(':')[1]} returns `{str(n.rat(r.value))[:240] if r.value is not None else None}`, published: {forms[0]}", f, r)


# ---------------------------------------------------------------------------------------------- R3
def r3_minkowski(ctx: Context) -> None:
    f = ctx.func("black_it.loss_functions.minkowski:MinkowskiLoss.compute_loss_1d")
    n = normaliser(ctx.prog, f)
    rets = returns_of(f)
    for r in rets:
        v = r.value
        ok = isinstance(v, ast.Call) and (dotted(v.func) or "").split(".")[-1] == "minkowski"
        if ok:
            g = CFG(f.node)
            a0 = v.args[0]
            val = a0
            if isinstance(a0, ast.Name):
                evs = reaching_events(g, a0.id, g.nodes_of(r)[0])
                vals = [a.value for _, k, a in evs if k == "assign"]  # type: ignore[union-attr]
                val = vals[0] if len(vals) == 1 and len(evs) == 1 else None
            mean_ok = val is not None and str(n.rat(val)) in (str(n.rat(parse_expr("sim_data_ensemble.mean(axis=0)"))),)
            real_ok = len(v.args) > 1 and src(v.args[1]) == "real_data"
            p = kwarg(v, "p", 2)
            p_ok = p is not None and src(p) == "self.p"
            ctx.check(mean_ok, "R3.minkowski", "MinkowskiLoss.compute_loss_1d:member-mean", "the distance is taken from the ensemble-mean series (mean over axis 0)",
                      f"first operand is `{src(val) if val is not None else src(a0)}`", f, r)
            ctx.check(real_ok and p_ok, "R3.minkowski", "MinkowskiLoss.compute_loss_1d:operands", "minkowski(mean series, real series, p=self.p)", f"distance call is `{src(v)}`", f, r)
        else:
            raise AnalysisError(f"{f.loc(r)}: MinkowskiLoss no longer wraps scipy's minkowski; rule table does not apply")


def r3_msm(ctx: Context) -> None:
    f = ctx.func("black_it.loss_functions.msm:MethodOfMomentsLoss.compute_loss_1d")
    g = CFG(f.node)
    n = normaliser(ctx.prog, f, inline_locals=False)
    sim, real = f.bound_params[0], f.bound_params[1]
    # roles: ensemble moments (array over members), real moments, their standardised versions
    comp_vars = [c.generators[0].target.id for c in ast.walk(f.node) if isinstance(c, (ast.ListComp, ast.GeneratorExp)) and len(c.generators) == 1
                 and isinstance(c.generators[0].target, ast.Name) and src(c.generators[0].iter) == sim]
    mv = comp_vars[0] if comp_vars else "s"
    ens = f"np.array([self._moment_calculator({mv}) for {mv} in {sim}])"
    rm = f"self._moment_calculator({real})"
    # g, W, return values by reaching definitions at each return
    rets = returns_of(f)
    ctx.floor("R3", "return in MSM compute_loss_1d", len(rets), 2)

    def resolve(e: ast.expr, at) -> list[str]:
        nn_ = normaliser(ctx.prog, f, inline_locals=False)
        return [str(nn_.rat(x)) for x in expand_forms(ctx.prog, f, g, e, at)]

    nn = normaliser(ctx.prog, f, inline_locals=False)
    E_raw, R_raw = str(nn.rat(parse_expr(ens))), str(nn.rat(parse_expr(rm)))
    E_std = str(nn.rat(parse_expr(f"{ens} / abs({rm})[None, :]")))
    R_std = str(nn.rat(parse_expr(f"{rm} / abs({rm})")))

    def forms(template: str) -> set[str]:
        out = set()
        for E, R in ((ens, rm), (f"({ens} / abs({rm})[None, :])", f"({rm} / abs({rm}))")):
            out.add(str(nn.rat(parse_expr(template.replace("E", E).replace("R", R)))))
        return out

    # Path-sensitive reading: one form per acyclic path to each return (locals substituted forward along that path, so the two
    # standardisation re-assignments stay correlated).  Every path must return g.g or g.W.g with g and W built from the SAME pair
    # (E, R) - raw on the paths that skip standardisation, standardised on those that take it.
    pairs = {"raw": (ens, rm), "standardised": (f"({ens} / abs({rm})[None, :])", f"({rm} / abs({rm}))")}
    user_w = ["self._covariance_mat", "cast(NDArray[np.float64], self._covariance_mat)"]

    def allowed(kind: str) -> dict[str, str]:
        out = {}
        for tag, (E, R) in pairs.items():
            G = f"({R} - np.mean({E}, axis=0))"
            if kind == "identity":
                out[str(nn.rat(parse_expr(f"{G}.dot({G})")))] = tag
            elif kind == "inverse":
                W = f"np.diag(1.0 / np.mean(({R}[None, :] - {E}) ** 2, axis=0))"
                out[str(nn.rat(parse_expr(f"{G}.dot({W}).dot({G})")))] = tag
            else:
                for W in user_w:
                    out[str(nn.rat(parse_expr(f"{G}.dot({W}).dot({G})")))] = tag
        return out

    A_id, A_inv, A_user = allowed("identity"), allowed("inverse"), allowed("user")
    seen = {"identity": set(), "inverse": set(), "user": set()}
    n_paths = 0
    for r in rets:
        rn = g.nodes_of(r)[0]
        for decisions, form in path_forms(f, g, r.value, rn):
            n_paths += 1
            form = _see_through_helpers(ctx.prog, f, form)
            v = str(nn.rat(form))
            std_taken = any(d.startswith("self._standardise_moments=true") for d in decisions)
            kind = "identity" if v in A_id else "inverse" if v in A_inv else "user" if v in A_user else None
            if kind is None:
                opaque = [c_ for c_ in ast.walk(form) if isinstance(c_, ast.Call) and (dotted(c_.func) or "").split(".")[-1] not in ("cast", "_moment_calculator") and any(
                    isinstance(t, FuncInfo) and t.qualname != f.qualname for t in ctx.prog.resolve_call(f, c_))]
                if opaque:
                    raise AnalysisError(f"{f.loc(r)}: the MSM value goes through the helper `{src(opaque[0].func)}`, which could not be read in place; cannot decide R3.msm")
                ctx.fail("R3.msm", "MethodOfMomentsLoss.compute_loss_1d:return", f"on the path [{'; '.join(decisions)}] MSM returns `{v[:260]}`: neither g.g nor g.W.g with g = m(real) - mean_e m(sim_e) "
                         "and W built from the same (standardised or raw) moments as g", f, r, list(decisions))
                continue
            tag = {**A_id, **A_inv, **A_user}[v]
            seen[kind].add(tag)
            ctx.check((tag == "standardised") == std_taken, "R3.msm", f"MethodOfMomentsLoss.compute_loss_1d:{kind}:{tag}", f"{kind} weighting, {tag} moments on the path that "
                      f"{'takes' if std_taken else 'skips'} standardisation", f"path [{'; '.join(decisions)}] returns the {tag} form although standardisation is {'on' if std_taken else 'off'}", f, r, list(decisions))
    ctx.notes["msm_paths"] = n_paths
    for kind in seen:
        ctx.check(seen[kind] == {"raw", "standardised"}, "R3.msm", f"MethodOfMomentsLoss.compute_loss_1d:branches:{kind}", f"{kind} weighting is returned for raw and for standardised moments",
                  f"MSM {kind}-weighting return reached for {sorted(seen[kind]) or 'no'} moments only", f, f.node)
    # branch selection by the option value
    tests = [t for t in g.live if t.kind == "test"]
    from ..poly import single_assignment_env as _sae
    env_ = _sae(f.node)
    txt = " ".join(src(env_.get(t.ast.id, t.ast)) if isinstance(t.ast, ast.Name) else src(t.ast) for t in tests)   # a test held in a local flag reads as its definition
    ctx.check("IDENTITY" in txt and "INVERSE_VARIANCE" in txt and "self._standardise_moments" in txt, "R3.msm", "MethodOfMomentsLoss.compute_loss_1d:option-tests",
              "branches are selected by covariance_mat and standardise_moments", "option tests changed", f, f.node)


def _subst(e: ast.expr, name: str, repl: ast.expr) -> ast.expr:
    class T(ast.NodeTransformer):
        def visit_Name(self, node: ast.Name):  # noqa: N802
            if node.id == name and isinstance(node.ctx, ast.Load):
                return ast.parse(src(repl), mode="eval").body
            return node
    return T().visit(ast.parse(src(e), mode="eval").body)


def r3_fourier(ctx: Context) -> None:
    prog = ctx.prog
    f = ctx.func("black_it.loss_functions.fourier:FourierLoss.compute_loss_1d")
    n = normaliser(prog, f)
    sim, real = f.bound_params[0], f.bound_params[1]
    rets = returns_of(f)
    # structure: sqrt( sum(abs(MEAN - FREAL)**2) / n_freq )
    freal = f"self.frequency_filter(np.fft.rfft({real}, axis=0), self.f)"
    g = CFG(f.node)
    nn0 = normaliser(prog, f, inline_locals=False)
    nfreq = str(nn0.rat(parse_expr(f"np.fft.rfft({real}, axis=0).shape[0]")))
    fr = str(nn0.rat(parse_expr(freal)))
    for r in rets:
        txts = [str(nn0.rat(x)) for x in expand_forms(prog, f, g, r.value, g.nodes_of(r)[0])]
        txt = txts[0]
        ok = all(t.startswith("pow(") and t.endswith(",1/2)") for t in txts)
        ctx.check(ok, "R3.fourier", "FourierLoss.compute_loss_1d:sqrt", "the loss is a square root", f"Fourier loss is `{txt[:160]}`", f, r)
        ctx.check(all(t.endswith(f"/({nfreq}),1/2)") for t in txts), "R3.fourier", "FourierLoss.compute_loss_1d:n_freq",
                  "the squared distance is divided by the number of frequencies of the real spectrum", f"normalisation differs: `{txt[-200:]}`", f, r)
        ctx.check(all(t.startswith("pow((sum(abs(") and fr in t and ")^2))/" in t for t in txts), "R3.fourier", "FourierLoss.compute_loss_1d:distance",
                  "sum of |mean filtered sim spectrum - filtered real spectrum|^2", f"distance differs: `{txt[:240]}`", f, r)
    # members: mean over axis 0 of the filtered spectra, each rfft(s, axis=0) then frequency_filter(., self.f)
    loops = [s for s in walk_scope(f.node) if isinstance(s, ast.For) and src(s.iter) == sim]
    comps = [c for c in ast.walk(f.node) if isinstance(c, (ast.ListComp, ast.GeneratorExp)) and len(c.generators) == 1 and src(c.generators[0].iter) == sim and not c.generators[0].ifs]
    ctx.floor("R3", "member loop / comprehension in FourierLoss", len(loops) + len(comps), 1)
    lp = loops[0] if loops else comps[0]
    tgt = lp.target if loops else comps[0].generators[0].target
    m = tgt.id if isinstance(tgt, ast.Name) else "s"
    apps = [c for c in ast.walk(lp) if isinstance(c, ast.Call) and isinstance(c.func, ast.Attribute) and c.func.attr == "append"] if loops else []
    body_env = {}
    for s in ast.walk(lp):
        if isinstance(s, ast.Assign) and isinstance(s.targets[0], ast.Name):
            body_env.setdefault(s.targets[0].id, []).append(s.value)
    ok = len(apps) == 1 or not loops
    if not loops:
        # comprehension form: the element expression is the member's contribution
        nn = normaliser(prog, f, inline_locals=False)
        ok = str(nn.rat(comps[0].elt)) == str(nn.rat(parse_expr(f"self.frequency_filter(np.fft.rfft({m}, axis=0), self.f)")))
    elif ok:
        e = apps[0].args[0]
        # expand sequential re-assignments of the same local
        chain = None
        if isinstance(e, ast.Name) and e.id in body_env:
            vals = body_env[e.id]
            cur = vals[0]
            for nxt in vals[1:]:
                cur = _subst(nxt, e.id, cur)
            chain = cur
        else:
            chain = e
        nn = normaliser(prog, f, inline_locals=False)
        ok = str(nn.rat(chain)) == str(nn.rat(parse_expr(f"self.frequency_filter(np.fft.rfft({m}, axis=0), self.f)")))
    ctx.check(ok, "R3.fourier", "FourierLoss.compute_loss_1d:member-spectrum", "each member contributes frequency_filter(rfft(member), f)", "member spectrum pipeline changed", f, lp)
    def _axis0_mean(c: ast.AST) -> bool:
        if not (isinstance(c, ast.Call) and isinstance(c.func, ast.Attribute) and c.func.attr in ("mean", "average")):
            return False
        fn_ = dotted(c.func) or ""
        ax = kwarg(c, "axis", 1) if fn_ in ("np.mean", "numpy.mean", "np.average", "numpy.average") else kwarg(c, "axis", 0)      # np.mean(x, 0) / x.mean(0)
        return ax is not None and src(ax) == "0"
    mean_ok = any(_axis0_mean(c) for c in ast.walk(f.node))
    ctx.check(mean_ok, "R3.fourier", "FourierLoss.compute_loss_1d:member-mean", "filtered spectra are averaged over the members (axis 0)", "member mean changed", f, f.node)
    # filters
    i = ctx.func("black_it.loss_functions.fourier:ideal_low_pass_filter")
    ni = normaliser(prog, i)
    sig, ff = i.params[0], i.params[1]
    nn = normaliser(prog, i)
    mask_stores = [s for s in walk_scope(i.node) if isinstance(s, ast.Assign) and isinstance(s.targets[0], ast.Subscript) and isinstance(s.targets[0].value, ast.Name) and isinstance(s.targets[0].slice, ast.Slice)]
    mask_name = mask_stores[0].targets[0].value.id if mask_stores else "mask"
    _check_returns(ctx, i, "R3.fourier-ideal", "ideal_low_pass_filter:return", "ideal filter = spectrum * mask (mask: zeros with ones on the first n)", [f"{sig} * {mask_name}"], normaliser(prog, i, inline_locals=False))
    zero_init = [s for s in walk_scope(i.node) if isinstance(s, ast.Assign) and isinstance(s.targets[0], ast.Name) and s.targets[0].id == mask_name]
    cut = str(nn.rat(parse_expr(f"int(np.round({ff} * {sig}.shape[0]))")))
    init_form = str(nn.rat(zero_init[0].value)) if len(zero_init) == 1 else ""
    zeros_form, empty_form = str(nn.rat(parse_expr(f"np.zeros({sig}.shape[0])"))), str(nn.rat(parse_expr(f"np.empty({sig}.shape[0])")))
    head = [s for s in mask_stores if s.targets[0].slice.lower is None and s.targets[0].slice.upper is not None and s.targets[0].slice.step is None and str(nn.rat(s.targets[0].slice.upper)) == cut]
    tail = [s for s in mask_stores if s.targets[0].slice.upper is None and s.targets[0].slice.lower is not None and s.targets[0].slice.step is None and str(nn.rat(s.targets[0].slice.lower)) == cut]
    ones = lambda s: src(s.value) in ("1.0", "1")  # noqa: E731
    zeros = lambda s: src(s.value) in ("0.0", "0")  # noqa: E731
    # zeros with ones on the first n, or an uninitialised buffer whose two slices [:n] = 1 and [n:] = 0 cover it entirely
    form_a = init_form == zeros_form and len(mask_stores) == 1 and len(head) == 1 and ones(head[0])
    form_b = init_form in (empty_form, zeros_form) and len(mask_stores) == 2 and len(head) == 1 and len(tail) == 1 and ones(head[0]) and zeros(tail[0])
    ctx.check(init_form in (zeros_form, empty_form) and (init_form == zeros_form or form_b), "R3.fourier-ideal", "ideal_low_pass_filter:mask-init",
              "the mask starts as zeros over all frequencies (or is an uninitialised buffer that is filled entirely)", f"mask initialised by `{src(zero_init[0].value) if zero_init else '?'}`", i, i.node)
    ctx.check(form_a or form_b, "R3.fourier-ideal", "ideal_low_pass_filter:mask", "the first round(f * n_freq) components are kept", f"mask store `{src(mask_stores[0]) if mask_stores else '?'}`", i, i.node)
    gq = ctx.func("black_it.loss_functions.fourier:gaussian_low_pass_filter")
    ng = normaliser(prog, gq)
    sig, ff = gq.params[0], gq.params[1]
    _check_returns(ctx, gq, "R3.fourier-gaussian", "gaussian_low_pass_filter:return", "gaussian filter = spectrum * exp(-k^2 / (2 sigma^2)), sigma = round(f * n_freq)",
                   [f"{sig} * np.exp(-np.arange({sig}.shape[0]) ** 2 / (2 * np.round({ff} * {sig}.shape[0]) ** 2))"], ng)


def r3_gsl(ctx: Context) -> None:
    prog = ctx.prog
    f = ctx.func("black_it.loss_functions.gsl_div:GslDivLoss.gsl_div_1d_1_sample")
    sim, obs, L, b, T = f.bound_params[:5]
    n = normaliser(prog, f)
    loops = [s for s in f.node.body if isinstance(s, ast.For)]
    ctx.floor("R3", "word-length loop in gsl_div_1d_1_sample", len(loops), 1)
    lp = loops[0]
    wl = lp.target.id if isinstance(lp.target, ast.Name) else "word_length"
    ctx.check(str(n.rat(lp.iter)) == str(n.rat(parse_expr(f"range(1, {L} + 1)"))), "R3.gsl", "GslDivLoss.gsl_div_1d_1_sample:word-lengths", "word lengths 1..L", f"loop over `{src(lp.iter)}`", f, lp)
    rets = returns_of(f)
    acc = rets[0].value.id if rets and isinstance(rets[0].value, ast.Name) else None
    if acc is None:
        raise AnalysisError("gsl_div_1d_1_sample does not return an accumulator")
    acc_upd = [s for s in ast.walk(lp) if isinstance(s, (ast.Assign, ast.AugAssign)) and src(s.targets[0] if isinstance(s, ast.Assign) else s.target) == acc]
    ctx.check(len(acc_upd) == 1, "R3.gsl", "GslDivLoss.gsl_div_1d_1_sample:accumulate-once", "one accumulation per word length", f"{len(acc_upd)} accumulation statements", f, lp)
    if len(acc_upd) != 1:
        return
    s = acc_upd[0]
    from ..poly import Rat, p_atom
    A = Rat(p_atom(acc))
    new = n.rat(s.value) if isinstance(s, ast.Assign) else A + n.rat(s.value)
    term = new - A
    # weight accumulator: the multi-assigned local multiplying the term
    multi = [x for x in term.atoms() if x.isidentifier() and len(_assigned(f, x)) >= 2]
    ctx.check(len(multi) == 1, "R3.gsl", "GslDivLoss.gsl_div_1d_1_sample:weight-var", "the term is weight * (2H(m) - H(s) + corr)", f"term `{str(term)[:120]}` has no single running weight", f, s)
    if len(multi) != 1:
        return
    w = multi[0]
    W = Rat(p_atom(w))
    pool = f"np.concatenate((self.get_words({sim}, {wl}), self.get_words({obs}, {wl})))"
    Hm = f"self.get_sh_entr(self.get_words_est_prob({pool}), float({b} ** {wl}))"
    Hs = f"self.get_sh_entr(self.get_words_est_prob(self.get_words({sim}, {wl})), float({b} ** {wl}))"
    corr = f"((len(self.get_words_est_prob({pool})) - 1) - (len(self.get_words_est_prob(self.get_words({sim}, {wl}))) - 1)) / (2 * {T})"
    want = W * n.rat(parse_expr(f"2 * {Hm} - {Hs} + {corr}"))
    ctx.check(term.equals(want), "R3.gsl", "GslDivLoss.gsl_div_1d_1_sample:term", "term = weight * (2 H(mixture) - H(sim) + ((|m|-1)-(|s|-1))/(2T)), entropies in base b^l",
              f"GSL term is `{str(term)[:300]}`", f, s)
    w_upd = [x for x in ast.walk(lp) if isinstance(x, (ast.Assign, ast.AugAssign)) and src(x.targets[0] if isinstance(x, ast.Assign) else x.target) == w]
    ok = len(w_upd) == 1
    if ok:
        neww = n.rat(w_upd[0].value) if isinstance(w_upd[0], ast.Assign) else W + n.rat(w_upd[0].value)
        ok = (neww - W).equals(n.rat(parse_expr(f"2 / ({L} * ({L} + 1))")))
    ctx.check(ok, "R3.gsl", "GslDivLoss.gsl_div_1d_1_sample:weight-step", "weights grow by 2/(L(L+1)) per word length (they sum to 1)",
              f"weight update is `{src(w_upd[0]) if w_upd else '?'}`", f, w_upd[0] if w_upd else lp)
    # weight updated before it is used in the same iteration; both start at 0
    for nm in (acc, w):
        inits = [v for v in _assigned(f, nm) if isinstance(v, ast.Constant)]
        ctx.check(len(inits) == 1 and inits[0].value in (0, 0.0), "R3.gsl", f"GslDivLoss.gsl_div_1d_1_sample:init:{nm}", f"{nm} starts at 0", f"{nm} starts at {src(inits[0]) if inits else '?'}", f, f.node)
    g = CFG(f.node)
    un, an = g.nodes_of(w_upd[0]) if w_upd else [], g.nodes_of(s)
    if un and an:
        head = [x for x in g.live if x.kind == "for" and x.stmt is lp][0]
        p = g.path_avoiding(head, set(an), set(un), labels={"loop", "next", "true", "false"})
        ctx.check(p is None, "R3.gsl", "GslDivLoss.gsl_div_1d_1_sample:weight-before-use", "the weight of word length l is l * 2/(L(L+1)) (updated before use)", "the weight is used before it is updated", f, s)
    # entropy and probabilities
    e = ctx.func("black_it.loss_functions.gsl_div:GslDivLoss.get_sh_entr")
    _check_returns(ctx, e, "R3.gsl-entropy", "GslDivLoss.get_sh_entr:return", "H = -sum(p * log(p) / log(base))",
                   [f"-np.sum(np.multiply({e.params[0]}, np.log({e.params[0]}) / np.log({e.params[1]})))"])
    pr = ctx.func("black_it.loss_functions.gsl_div:GslDivLoss.get_words_est_prob")
    npr = normaliser(prog, pr)
    uq = [c for c in calls_in(pr.node) if (dotted(c.func) or "").endswith("unique")]
    cnt = None
    for s_ in walk_scope(pr.node):
        if isinstance(s_, ast.Assign) and uq and s_.value is uq[0] and isinstance(s_.targets[0], ast.Tuple) and len(s_.targets[0].elts) == 2:
            cnt = src(s_.targets[0].elts[1])
    rc = kwarg(uq[0], "return_counts") if uq else None
    for r in returns_of(pr):
        ok = cnt is not None and isinstance(rc, ast.Constant) and rc.value is True and src(uq[0].args[0]) == pr.params[0] and \
            npr.rat(r.value).equals(npr.rat(parse_expr(f"np.divide({cnt}, np.sum({cnt}))")))
        ctx.check(ok, "R3.gsl-entropy", "GslDivLoss.get_words_est_prob:return", "probabilities are counts of distinct words / total count", f"probabilities are `{str(npr.rat(r.value))[:120]}`", pr, r)
    # ensemble: plain mean over members, defaults for b and L
    c1 = ctx.func("black_it.loss_functions.gsl_div:GslDivLoss.compute_loss_1d")
    n1 = normaliser(prog, c1)
    sim1, real1 = c1.bound_params[0], c1.bound_params[1]
    for r in returns_of(c1):
        v = r.value
        ok = isinstance(v, ast.BinOp) and isinstance(v.op, ast.Div) and str(n1.rat(v.right)) == str(n1.rat(parse_expr(f"{sim1}.shape[0]")))
        ctx.check(ok, "R3.gsl-ensemble", "GslDivLoss.compute_loss_1d:member-mean", "the per-member divergences are averaged over the ensemble size", f"returns `{src(v)}`", c1, r)
    # the two defaults are the locals handed to discretize (alphabet size) and to gsl_div_1d_1_sample (number of word lengths)
    role_names = {}
    for cl in calls_in(c1.node):
        if isinstance(cl.func, ast.Attribute) and cl.func.attr == "gsl_div_1d_1_sample" and len(cl.args) >= 4:
            role_names["nb_word_lengths"] = src(cl.args[2])
            role_names["nb_values"] = src(cl.args[3])
    for role, attr in (("nb_values", "self.nb_values"), ("nb_word_lengths", "self.nb_word_lengths")):
        nm = role_names.get(role, role)
        av = assigned_value(c1.node.body, lambda t, nm=nm: isinstance(t, ast.Name) and t.id == nm)
        d = [av] if av is not None else _assigned(c1, nm)
        ok = len(d) == 1 and isinstance(d[0], ast.IfExp) and n1.canon(d[0].test) in (n1.canon(parse_expr(f"{attr} is None")),) and \
            str(n1.rat(d[0].body)) == str(n1.rat(parse_expr(f"int((len({real1}) - 1) / 2.0)"))) and src(d[0].orelse) == attr
        ctx.check(ok, "R3.gsl-defaults", f"GslDivLoss.compute_loss_1d:default:{role}", f"{role} defaults to int((T-1)/2), else the configured value", f"{role} is `{src(d[0]) if d else '?'}`", c1, d[0] if d else c1.node)
    # discretisation: equal-width bins between min-EPS and max+EPS, searchsorted left
    d = ctx.func("black_it.loss_functions.gsl_div:GslDivLoss.discretize")
    nd = normaliser(prog, d, inline_locals=False)
    ss = [c for c in calls_in(d.node) if (dotted(c.func) or "").endswith("searchsorted")]
    ls = [c for c in calls_in(d.node) if (dotted(c.func) or "").endswith("linspace")]
    ok = len(ss) == 1 and len(ls) == 1
    if ok:
        sv, l0, l1, l2 = kwarg(ss[0], "v", 1), kwarg(ls[0], "start", 0), kwarg(ls[0], "stop", 1), kwarg(ls[0], "num", 2)
        if any(x is None for x in (sv, l0, l1, l2)):
            raise AnalysisError(f"{d.loc(d.node)}: cannot read the arguments of the searchsorted / linspace calls in discretize")
        ok = isinstance(kwarg(ss[0], "side", 2), ast.Constant) and kwarg(ss[0], "side", 2).value == "left" and src(sv) == d.params[0] \
            and str(nd.rat(l2)) == str(nd.rat(parse_expr(f"{d.params[1]} + 1"))) and str(nd.rat(l0)) == str(nd.rat(parse_expr(f"{d.params[2]} - EPS"))) \
            and str(nd.rat(l1)) == str(nd.rat(parse_expr(f"{d.params[3]} + EPS")))
    ctx.check(ok, "R3.gsl-discretize", "GslDivLoss.discretize:bins", "nb_values equal-width bins on [min-EPS, max+EPS], insertion side 'left'", "discretisation changed", d, d.node)


def r3_likelihood(ctx: Context) -> None:
    prog = ctx.prog
    k = ctx.func("black_it.loss_functions.likelihood:kernel")
    a, h, d = k.params[:3]
    _check_returns(ctx, k, "R3.likelihood-kernel", "likelihood.kernel:return", "Gaussian kernel exp(-sq/(2h^2)) / (h^d (2 pi)^(d/2))",
                   [f"np.exp(-({a} / (2 * {h} ** 2))) / ({h} ** {d} * (2 * np.pi) ** ({d} / 2.0))"])
    s_ = ctx.func("black_it.loss_functions.likelihood:LikelihoodLoss._get_bandwidth_silverman")
    n_, d_ = s_.params[:2]
    _check_returns(ctx, s_, "R3.likelihood-bandwidth", "LikelihoodLoss._get_bandwidth_silverman:return", "Silverman: (n (d+2) / 4)^(-1/(d+4))", [f"(({n_} * ({d_} + 2)) / 4) ** (-1 / ({d_} + 4))"])
    sc = ctx.func("black_it.loss_functions.likelihood:LikelihoodLoss._get_bandwidth_scott")
    n_, d_ = sc.params[:2]
    _check_returns(ctx, sc, "R3.likelihood-bandwidth", "LikelihoodLoss._get_bandwidth_scott:return", "Scott: n^(-1/(d+4))", [f"{n_} ** (-1 / ({d_} + 4))"])
    f = ctx.func("black_it.loss_functions.likelihood:LikelihoodLoss.compute_loss")
    n = normaliser(prog, f)
    sim, real = f.bound_params[0], f.bound_params[1]
    shp = f"cast(tuple, {sim}.shape)"
    # Whole-pipeline reading: the value returned on every path, with every local substituted forward (util.path_forms) and `cast(T, e)` read as `e`,
    # must be the documented expression - minus the mean over repetitions of the time-sum of log kernel-density estimates, the squared distances being
    # summed over coordinates and scaled by 1/D.  Local names, temporaries, records and extracted helpers do not enter the comparison.
    class _NoCast(ast.NodeTransformer):
        def visit_Call(self, node: ast.Call):  # noqa: N802
            self.generic_visit(node)
            if (dotted(node.func) or "").split(".")[-1] == "cast" and len(node.args) == 2:
                return node.args[1]
            return node

    n0 = normaliser(prog, f, inline_locals=False)
    g = CFG(f.node)
    R, S, D = f"{sim}.shape[0]", f"{sim}.shape[1]", f"{sim}.shape[2]"
    X = f"np.transpose(self._filter_data(self._check_coordinate_filters({D}), {sim}), (1, 2, 0))"
    sq = f"(1.0 / {D} * np.sum(({X}[:, None, :, :] - {real}[None, :, None, :]) ** 2, axis=3))"
    oracle = f"-(np.sum(np.sum(np.log(np.sum(kernel({sq}, self._check_bandwidth({S}, {D}), {D}), axis=2) / {S}), axis=1), axis=0) / {R})"
    want = n0.rat(parse_expr(oracle))
    rets = returns_of(f)
    ctx.floor("R3", "return in LikelihoodLoss.compute_loss", len(rets), 1)
    n_forms = 0
    for r in rets:
        for decisions, form in path_forms(f, g, r.value, g.nodes_of(r)[0]):
            n_forms += 1
            got = n0.rat(_NoCast().visit(form))
            ok = got.equals(want) or str(got) == str(want)
            gtxt = str(got)
            hint = ""
            if not ok:
                if not gtxt.lstrip("(").startswith("-1*"):
                    hint = " (sign: must return MINUS the mean log-likelihood)"
                elif "axis=3" not in gtxt:
                    hint = " (the squared distance is no longer summed over the coordinate axis)"
                elif f"/({n0.rat(parse_expr(D))})" not in gtxt and f"({n0.rat(parse_expr(D))})" not in gtxt:
                    hint = " (the 1/D scaling of the squared distance is missing)"
            ctx.check(ok, "R3.likelihood", "LikelihoodLoss.compute_loss:pipeline", "returns -(1/R) sum_r sum_t log( (1/S) sum_s K( (1/D) sum_d (x - y)^2 ; h, D) )",
                      f"on the path [{'; '.join(decisions)}] the likelihood loss is `{gtxt[:260]}`{hint}; documented `{str(want)[:200]}`", f, r)
    ctx.notes["likelihood_forms"] = n_forms
    bw = ctx.func("black_it.loss_functions.likelihood:LikelihoodLoss._check_bandwidth")
    nb = normaliser(prog, bw, inline_locals=False)
    g = CFG(bw.node)
    calls = {c.func.attr: c for c in calls_in(bw.node) if isinstance(c.func, ast.Attribute) and c.func.attr.startswith("_get_bandwidth")}
    for rule_name, call in calls.items():
        want_const = "'silverman'" if "silverman" in rule_name else "'scott'"
        cn = [x for x in g.live if x.ast is not None and any(y is call for y in ast.walk(x.ast))]
        deps = {(src(t.ast), lab) for x in cn for t, lab in g.control_closure(x) if t.kind == "test"}
        ok = any(want_const in d and lab == "true" for d, lab in deps) and [src(a) for a in call.args] == bw.bound_params[:2]
        ctx.check(ok, "R3.likelihood-bandwidth", f"LikelihoodLoss._check_bandwidth:{rule_name}", f"h == {want_const} selects {rule_name}(s, d)",
                  f"{rule_name} is selected under {sorted(deps)} with args {[src(a) for a in call.args]}", bw, call)


# ---------------------------------------------------------------------------------------------- R4
def r4_word_packing(ctx: Context) -> None:
    prog = ctx.prog
    f = ctx.func("black_it.loss_functions.gsl_div:GslDivLoss.get_words")
    n = normaliser(prog, f, inline_locals=False)
    ts, length = f.params[0], f.params[1]
    loops = [s for s in walk_scope(f.node) if isinstance(s, ast.For)]
    ctx.floor("R4", "packing loop in get_words", len(loops), 1)
    lp = loops[0]
    i = lp.target.id if isinstance(lp.target, ast.Name) else "i"
    ks = [s for s in ast.walk(lp) if isinstance(s, ast.Assign) and isinstance(s.value, ast.BinOp) and isinstance(s.value.op, ast.Pow)]
    if not ks:
        raise AnalysisError("get_words no longer packs symbols positionally with radix ** position; rule does not apply")
    radix, expo = ks[0].value.left, ks[0].value.right
    ctx.check(str(n.rat(expo)) == str(n.rat(parse_expr(f"{length} - {i} - 1"))), "R4.positions", "GslDivLoss.get_words:positions", "symbol i of a word has weight radix^(length-i-1)",
              f"position exponent is `{src(expo)}`", f, ks[0])
    literal = isinstance(radix, ast.Constant)
    # the radix must dominate the alphabet: depend on the number of symbols, or the alphabet must be validated below it
    callers_validate = False
    c1 = prog.func("black_it.loss_functions.gsl_div:GslDivLoss.compute_loss_1d")
    for x in ast.walk(c1.node):
        if isinstance(x, ast.Compare) and "nb_values" in src(x) and any(isinstance(y, ast.Constant) and y.value == (radix.value if literal else None) for y in ast.walk(x)):
            callers_validate = True
    ctx.check((not literal) or callers_validate, "R4.radix", "GslDivLoss.get_words:radix",
              "the packing radix depends on the alphabet size (or the alphabet is validated to be smaller than the radix)",
              f"words are packed in base {src(radix)} while symbols run up to nb_values, which defaults to (T-1)/2 and is not validated below {src(radix)}: "
              "different words collide for >= 10 symbols (e.g. symbols (1,12) and (2,2) both pack to 22), so entropies and the loss are wrong", f, ks[0])


def dtype_rule(ctx: Context) -> None:
    """Results must not be stored into arrays that inherit the dtype of caller-supplied data (integer input would truncate them)."""
    from ..util import dtype_inheritance_sites
    funcs = [f for f in ctx.prog.all_functions() if f.module.name.startswith(('black_it.loss_functions',))]
    for f, node, what in dtype_inheritance_sites(ctx.prog, funcs):
        ctx.fail("R6.dtype", f"{f.qualname.split(':')[1]}:inherited-dtype:{' '.join(src(node).split())[:50]}",
                 f"{what}: for integer or lower-precision input the value is silently truncated / rounded on assignment, so the result is no longer what the definition gives", f, node)
    ctx.ok("R6.dtype", "c07:scanned", f"{len(funcs)} functions: no computed value is stored into an array of inherited dtype")


def _see_through_helpers(prog, f: FuncInfo, form: ast.expr, depth: int = 0) -> ast.expr:
    """A call to a repository helper all of whose normal (non-raising) paths return one and the same expression of its parameters - e.g. a `_quadratic_form(g, W)`
    that wraps `g.dot(W).dot(g)` in a try/except translating the error message - is read as that expression with the arguments substituted."""
    if depth > 3:
        return form
    from ..util import _substitute, path_summaries

    class T(ast.NodeTransformer):
        def visit_Call(self, node: ast.Call):  # noqa: N802
            self.generic_visit(node)
            try:
                ts = [t for t in prog.resolve_call(f, node) if isinstance(t, FuncInfo)]
            except AnalysisError:
                return node
            if len(ts) != 1 or ts[0].qualname == f.qualname or any(isinstance(a, ast.Starred) for a in node.args) or any(k.arg is None for k in node.keywords):
                return node
            t = ts[0]
            if any(isinstance(x, (ast.Yield, ast.YieldFrom)) for x in ast.walk(t.node)):
                return node
            try:
                rets = [ps.ret for ps in path_summaries(t) if ps.ends == "return" and ps.ret is not None]
            except AnalysisError:
                return node
            texts = {ast.unparse(r) for r in rets}
            if len(texts) != 1:
                return node
            params = list(t.bound_params)
            if len(node.args) > len(params):
                return node
            b = dict(zip(params, node.args))
            for k in node.keywords:
                if k.arg not in params or k.arg in b:
                    return node
                b[k.arg] = k.value
            if set(params) - set(b):
                return node
            expr = rets[0]
            if t.self_name and any(isinstance(x, ast.Name) and x.id == t.self_name for x in ast.walk(expr)):
                recv = node.func.value if isinstance(node.func, ast.Attribute) else None
                if recv is None:
                    return node
                expr = _substitute(expr, t.self_name, recv)
            for p_, a in b.items():
                expr = _substitute(expr, p_, a)
            return _see_through_helpers(prog, f, expr, depth + 1)

    return T().visit(ast.parse(ast.unparse(form), mode="eval").body)
