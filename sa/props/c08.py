"""C08 - the loss interface is pure, weight-linear and coordinate-symmetric (structural clauses)."""
from __future__ import annotations

import ast
from fractions import Fraction

from ..absint import Evaluator, Licence, Obj, Opaque
from ..alias import AliasAnalysis
from ..cfg import CFG
from ..errors import AnalysisError
from ..model import ClassInfo, FuncInfo, dotted, src, walk_scope
from ..poly import Rat, p_atom
from ..report import Context
from ..util import calls_in, is_self_attr, node_for, normaliser, parse_expr, returns_of

LEVEL_TEXT = (
    "Static analysis of black_it/loss_functions and utils/time_series.py (no execution): (R1) interprocedural, "
    "flow-sensitive alias analysis seeded at sim_data_ensemble / real_data of every compute_loss, compute_loss_1d, "
    "_filter_data and at the built-in filters / moment calculators reports any in-place write through a view of the "
    "inputs; (R2) no function reachable from compute_loss* stores to `self` (except the idempotent rebind self.a = "
    "cast(T, self.a)), mutates a self attribute in place, or writes module/class-level state - so an evaluation cannot "
    "depend on earlier ones; (R3) BaseLoss.compute_loss is the sum over all range(D) of compute_loss_1d(filtered[i], "
    "real[:, i]) * weights[i] with one index and an accumulator starting at 0; (R4) both length validators raise "
    "ValueError iff length != D (order classes len<D, =D, >D, exhaustive); (R5) no subclass overrides the common "
    "machinery except the tabled LikelihoodLoss.compute_loss; (R6) filters are applied to the simulated argument only, "
    "filter i to coordinate i of every member. Ensemble-permutation invariance, non-negativity and zero-at-equality "
    "are numerical clauses that are not decided."
    ' Included: values returned by user-supplied callables are never modified in place (R1b), and the MSM shape rule of C07 (the inverse-variance weight is the reciprocal of a mean of squares of the same centred moments).'
    " (R7) per-coordinate callables built in a loop / comprehension bind the coordinate's value when built (no late-binding closure that outlives its iteration); the 18 moments are finite (nan_to_num rule of C20), which 'zero when simulated equals real' needs for constant or linear series."
    ' Included from C07: the likelihood pipeline oracle and the Minkowski / Fourier formula rules (invariance under member reordering, non-negativity and the zero case rest on them). (R8) every loss constructor forwards weights / filters to the base-class parameters of the same name; the process-wide numpy error mode is never changed without a restoring finally.'
    " The module-state clause exempts a memo keyed injectively by value whose entries nobody writes into; the filter-pairing rule reads member loops through the canonical loop binding."
)
TECHNIQUE = "alias/mutation analysis + effect (self-store) analysis + normal forms + order-class abstract evaluation"

BASE = "black_it.loss_functions.base:BaseLoss"
TABLED_OVERRIDES = {("LikelihoodLoss", "compute_loss"): "documented: the kernel likelihood is not a sum of per-coordinate terms; it warns and ignores weights, its compute_loss_1d raises"}


def loss_classes(ctx: Context) -> list[ClassInfo]:
    base = ctx.prog.find_class("BaseLoss")
    subs = ctx.prog.subclasses(base)
    ctx.floor("R1", "loss classes", len(subs), 6)
    return subs


def purity_seeds(ctx: Context) -> dict[tuple[str, str], set[str]]:
    prog = ctx.prog
    seeds: dict[tuple[str, str], set[str]] = {}
    n1d = 0
    for c in loss_classes(ctx):
        for name in ("compute_loss", "compute_loss_1d", "_filter_data"):
            m = c.methods.get(name)
            if m is None:
                continue
            if name == "compute_loss_1d" and "abstractmethod" not in m.decorators:
                n1d += 1
            for p, role in (("sim_data_ensemble", "loss.sim"), ("real_data", "loss.real")):
                if p in m.params:
                    seeds[(m.qualname, p)] = {role}
    ctx.floor("R1", "concrete compute_loss_1d bodies", n1d, 5)
    for q in ("black_it.utils.time_series:get_mom_ts_1d", "black_it.utils.time_series:get_mom_ts", "black_it.utils.time_series:hp_filter",
              "black_it.utils.time_series:hp_cycle_lamb1600_filter", "black_it.utils.time_series:log_and_hp_filter", "black_it.utils.time_series:diff_log_demean_filter"):
        f = prog.func(q)
        seeds[(q, f.params[0])] = {"loss.sim"}
    for q in ("black_it.loss_functions.fourier:ideal_low_pass_filter", "black_it.loss_functions.fourier:gaussian_low_pass_filter"):
        f = prog.func(q)
        seeds[(q, f.params[0])] = {"loss.frequencies"}
    return seeds


def run(ctx: Context) -> None:
    ctx.rule(r1_purity)
    ctx.rule(r1b_user_results)
    ctx.rule(r2_no_state)
    ctx.rule(r3_weighted_sum)
    ctx.rule(r4_validation)
    ctx.rule(r5_siblings)
    ctx.rule(r6_filters)
    ctx.rule(dtype_rule)
    ctx.rule(late_binding_rule)
    ctx.rule(constructor_forwarding)
    # "nor depends on earlier evaluations": that includes the process-wide floating-point error mode (rule shared with C20)
    ctx.rule(fp_state)
    # non-negativity of the MSM objective rests on its shape: g.g, or g.W.g with W = diag(1 / mean_e (deviation)^2) - a reciprocal of a mean of squares is positive
    # by construction, an algebraically "equal" expansion r^2 - 2 r E[x] + E[x^2] is not (cancellation can make it zero or negative).  Shared with C07-R3.
    from . import c07
    ctx.rule(c07.r3_msm)
    # "zero when every simulated member equals the real data" for the moment losses needs the 18 moments to be finite numbers: a NaN moment
    # (constant or linear series) makes the difference NaN, not 0 (nan_to_num rule shared with C20)
    from . import c20
    ctx.rule(c20.moments)
    # invariance under reordering of the ensemble members of the likelihood loss rests on its pipeline (every member against every real point, one reduction)
    ctx.rule(c07.r3_likelihood)
    # non-negativity and 'zero when every member equals the real data' of the Minkowski and Fourier losses rest on their formulas (norm of a difference)
    ctx.rule(c07.r3_minkowski)
    ctx.rule(c07.r3_fourier)


def r1_purity(ctx: Context) -> None:
    aa = AliasAnalysis(ctx.prog, purity_seeds(ctx)).run()
    for q in aa.analysed:
        ctx.functions.add(q)
    for (role, q, text), fd in sorted(aa.findings.items()):
        ctx.fail("R1.input-purity", f"{q.split(':')[1]}:{role}:{text}", f"{fd.what} writes into the caller's {role} array", fd.func, fd.node, fd.chain)
    if not aa.findings:
        ctx.ok("R1.input-purity", "losses:input-aliases", f"no in-place write through an alias of the loss inputs in {len(aa.analysed)} functions")
    ctx.tables["C08.R1.alias_flow"] = {
        "parameters_carrying_input_aliases": sorted(f"{q}({p})" for (q, p), v in aa.param_tags.items() if v),
        "attributes_carrying_input_aliases": sorted(f"{c}.{a}" for (c, a), v in aa.attr_tags.items() if v),
        "third_party_callees_receiving_an_alias (assumed pure)": {k: sorted(v) for k, v in sorted(aa.external_receivers.items())},
    }
    # storing an alias of the data on self is data-dependent state as well
    for (c, a), v in aa.attr_tags.items():
        if v:
            ctx.fail("R2.no-state", f"{c}.{a}:holds-input-alias", f"{c}.{a} keeps a reference to the {sorted(v)} array of an evaluation", None, None)
    for k in sorted(aa.external_receivers):
        ctx.assume(f"third-party / user callee {k} does not modify the loss input alias it receives")


def r1b_user_results(ctx: Context) -> None:
    """What a user-supplied callable returns (moment calculator, coordinate filter, frequency filter) belongs to the user: it may be a cached array or a view
    of the data that went in.  Writing into it in place (`x /= s`, `x[i] = ..`, `x.sort()`) changes what the next evaluation sees, so the loss is no longer
    a function of its arguments.  Re-binding (`x = x / s`) is fine."""
    prog = ctx.prog
    n_funcs = n_foreign = 0
    for c in loss_classes(ctx):
        methods = {m for k in prog.mro(c) for m in k.methods}
        for f in reachable_in_class(ctx, c, ["compute_loss", "compute_loss_1d"]):
            if f.self_name is None and f.cls is not None:
                continue
            n_funcs += 1
            foreign: dict[str, ast.AST] = {}
            callables = set()
            for s_ in walk_scope(f.node):
                # loop variables over a sequence of user callables (`for i, filter_ in enumerate(filters)`) are user callables too
                if isinstance(s_, ast.For):
                    for x in ast.walk(s_.target):
                        if isinstance(x, ast.Name) and ("filter" in x.id.lower() or "calculator" in x.id.lower() or x.id.lower() in ("fn", "func", "f_")):
                            callables.add(x.id)
            for s_ in walk_scope(f.node):
                if isinstance(s_, (ast.Assign, ast.AnnAssign)) and isinstance(getattr(s_, "value", None), ast.Call):
                    fn = s_.value.func
                    user = (isinstance(fn, ast.Attribute) and isinstance(fn.value, ast.Name) and fn.value.id == f.self_name and fn.attr not in methods) or (isinstance(fn, ast.Name) and fn.id in callables)
                    tgt = s_.targets[0] if isinstance(s_, ast.Assign) else s_.target
                    if user and isinstance(tgt, ast.Name):
                        foreign[tgt.id] = s_
            n_foreign += len(foreign)
            if not foreign:
                continue
            # a later re-binding by a fresh value ends the aliasing; keep it simple: only names bound once to the user result are tracked
            for nm in list(foreign):
                binds = [x for x in walk_scope(f.node) if isinstance(x, (ast.Assign, ast.AnnAssign)) and any(isinstance(t, ast.Name) and t.id == nm for t in (x.targets if isinstance(x, ast.Assign) else [x.target]))]
                if len(binds) != 1:
                    foreign.pop(nm)
            for x in walk_scope(f.node):
                hit = None
                if isinstance(x, ast.AugAssign):
                    b = x.target
                    while isinstance(b, ast.Subscript):
                        b = b.value
                    if isinstance(b, ast.Name) and b.id in foreign:
                        hit = b.id
                elif isinstance(x, ast.Assign) and isinstance(x.targets[0], ast.Subscript):
                    b = x.targets[0]
                    while isinstance(b, ast.Subscript):
                        b = b.value
                    if isinstance(b, ast.Name) and b.id in foreign:
                        hit = b.id
                elif isinstance(x, ast.Expr) and isinstance(x.value, ast.Call) and isinstance(x.value.func, ast.Attribute) and x.value.func.attr in ("sort", "fill", "resize", "put", "itemset", "partition") \
                        and isinstance(x.value.func.value, ast.Name) and x.value.func.value.id in foreign:
                    hit = x.value.func.value.id
                if hit is not None:
                    ctx.fail("R1.user-result-purity", f"{f.qualname.split(':')[1]}:{hit}", f"`{src(x)[:80]}` writes in place into `{hit}`, the array returned by the user-supplied `{src(foreign[hit].value.func)}`: "  # type: ignore[attr-defined]
                             "if that callable caches or returns a view, the next evaluation starts from modified values - the loss stops being a function of its arguments", f, x)
    ctx.ok("R1.user-result-purity", "losses:user-callable-results", f"{n_funcs} functions, {n_foreign} values returned by user-supplied callables: none is modified in place")


def reachable_in_class(ctx: Context, c: ClassInfo, roots: list[str]) -> list[FuncInfo]:
    prog = ctx.prog
    out: list[FuncInfo] = []
    work = [prog.lookup_method(c, r) for r in roots]
    work = [w for w in work if w is not None]
    while work:
        f = work.pop()
        if f in out:
            continue
        out.append(f)
        for call in calls_in(f.node, scope_only=False):
            for t in prog.resolve_call(f, call):
                if isinstance(t, FuncInfo) and t not in out and t.module.name.startswith(("black_it.loss_functions", "black_it.utils")):
                    # virtual dispatch: take the version seen from class c when it is a method of the hierarchy
                    if t.cls is not None and t.cls in prog.mro(c):
                        t2 = prog.lookup_method(c, t.name) or t
                        work.append(t2)
                    elif t.cls is None or c in prog.mro(t.cls) or t.cls not in prog.subclasses(prog.find_class("BaseLoss")):
                        work.append(t)
            # property reads
        for n in walk_scope(f.node):
            if isinstance(n, ast.Attribute) and isinstance(n.value, ast.Name) and n.value.id == f.self_name and f.cls is not None:
                g = prog.lookup_getter(c, n.attr)
                if g is not None and g not in out:
                    work.append(g)
    return out


INPLACE = {"append", "extend", "insert", "pop", "remove", "clear", "update", "setdefault", "popitem", "sort", "fill", "add", "discard", "resize", "put"}


def _only_memo_stores(prog, f: FuncInfo, attr: str) -> bool:
    """Outside the constructor, `self.<attr>` is only ever filled by value-memo stores (and emptied): it is a memo, not state."""
    from ..util import is_value_memo_store
    if f.cls is None:
        return False
    n_memo = 0
    for k in prog.mro(f.cls):
        for g in k.methods.values():
            if g.self_name is None:
                continue
            for x in walk_scope(g.node):
                tgts = x.targets if isinstance(x, ast.Assign) else [x.target] if isinstance(x, (ast.AugAssign, ast.AnnAssign)) else []
                for t in tgts:
                    if isinstance(t, ast.Subscript) and src(t.value) == f"{g.self_name}.{attr}":
                        if not (isinstance(x, ast.Assign) and is_value_memo_store(prog, g, x, f"{g.self_name}.{attr}")):
                            return False
                        n_memo += 1
                    elif is_self_attr(t, g.self_name, attr) and g.name != "__init__":
                        return False
                if isinstance(x, ast.Call) and isinstance(x.func, ast.Attribute) and src(x.func.value) == f"{g.self_name}.{attr}" and x.func.attr in ("update", "setdefault", "__setitem__"):
                    return False
    return n_memo > 0


def r2_no_state(ctx: Context) -> None:
    prog = ctx.prog
    n_funcs = 0
    for c in loss_classes(ctx):
        for f in reachable_in_class(ctx, c, ["compute_loss", "compute_loss_1d"]):
            ctx.analysed(f)
            n_funcs += 1
            sn = f.self_name
            for n in ast.walk(f.node):
                targets: list[tuple[ast.expr, ast.expr | None, ast.stmt]] = []
                if isinstance(n, ast.Assign):
                    for t in n.targets:
                        for el in (t.elts if isinstance(t, (ast.Tuple, ast.List)) else [t]):
                            targets.append((el, n.value, n))
                elif isinstance(n, ast.AugAssign):
                    targets.append((n.target, None, n))
                elif isinstance(n, ast.AnnAssign) and n.value is not None:
                    targets.append((n.target, n.value, n))
                elif isinstance(n, (ast.Global, ast.Nonlocal)):
                    ctx.fail("R2.no-state", f"{_q(f)}:global:{','.join(n.names)}", f"`{src(n)}` in code reachable from compute_loss: module-level state carried across evaluations", f, n)
                elif isinstance(n, ast.Call) and isinstance(n.func, ast.Attribute) and n.func.attr in INPLACE:
                    base = n.func.value
                    while isinstance(base, (ast.Subscript, ast.Attribute)) and not is_self_attr(base, sn):
                        base = base.value
                    if sn and is_self_attr(base, sn):
                        if n.func.attr in ("pop", "popitem", "clear") and base is n.func.value and _only_memo_stores(prog, f, base.attr):
                            ctx.ok("R2.no-state", f"{_q(f)}:memo-eviction:self.{base.attr}", f"`{src(n)[:60]}` only drops entries of a memo keyed by value")
                            continue
                        ctx.fail("R2.no-state", f"{_q(f)}:inplace:{src(n.func)}", f"`{src(n)[:80]}` mutates a loss attribute during an evaluation", f, n)
                    elif isinstance(base, ast.Name) and base.id in prog.module_consts.get(f.module.name, {}):
                        ctx.fail("R2.no-state", f"{_q(f)}:module-state:{base.id}", f"`{src(n)[:80]}` mutates module-level `{base.id}` during an evaluation", f, n)
                for t, v, stmt in targets:
                    base = t
                    sub = False
                    while isinstance(base, ast.Subscript):
                        base = base.value
                        sub = True
                    if sn and is_self_attr(base, sn):
                        attr = base.attr  # type: ignore[union-attr]
                        if sub and isinstance(stmt, ast.Assign):
                            from ..util import is_value_memo_store
                            if is_value_memo_store(prog, f, stmt, f"{sn}.{attr}") and _only_memo_stores(prog, f, attr):
                                ctx.ok("R2.no-state", f"{_q(f)}:value-memo:self.{attr}", f"`self.{attr}` is a memo keyed by value whose entries nobody writes into: an evaluation reads what it would "
                                       "have computed, earlier evaluations make no difference")
                                continue
                        if not sub and v is not None and _idempotent(v, sn, attr):
                            ctx.ok("R2.no-state", f"{_q(f)}:self.{attr}", f"`{src(stmt)[:70]}` is an idempotent rebind (type narrowing)")
                            continue
                        ctx.fail("R2.no-state", f"{_q(f)}:self.{attr}",
                                 f"`{src(stmt)[:90]}` stores to the loss object during an evaluation: later evaluations depend on earlier ones", f, stmt)
                    elif isinstance(base, ast.Attribute) and isinstance(base.value, ast.Name) and prog.class_of_name(f.module, base.value.id) is not None:
                        ctx.fail("R2.no-state", f"{_q(f)}:class-attr:{src(base)}", f"`{src(stmt)[:90]}` writes a class attribute during an evaluation", f, stmt)
                    elif isinstance(base, ast.Name) and sub and base.id in prog.module_consts.get(f.module.name, {}) and base.id not in _locals(f):
                        from ..util import is_value_memo_store
                        if is_value_memo_store(prog, f, stmt, base.id):
                            ctx.ok("R2.no-state", f"{_q(f)}:value-memo:{base.id}", f"`{base.id}` is a memo keyed by value whose entries nobody writes into: an evaluation reads what it would have computed")
                            continue
                        ctx.fail("R2.no-state", f"{_q(f)}:module-state:{base.id}", f"`{src(stmt)[:90]}` writes module-level `{base.id}` during an evaluation", f, stmt)
            for d in f.node.decorator_list:
                name = (dotted(d) or (dotted(d.func) if isinstance(d, ast.Call) else "") or "").split(".")[-1]
                if name in ("lru_cache", "cache", "cached_property", "memoize"):
                    ctx.fail("R2.no-state", f"{_q(f)}:decorator:{name}", f"@{name} on code reachable from compute_loss keeps results of earlier evaluations", f, f.node)
    ctx.floor("R2", "functions reachable from compute_loss*", n_funcs, 15)
    ctx.ok("R2.no-state", "losses:reachable", f"{n_funcs} (class, function) pairs reachable from compute_loss* scanned for stores to self / class / module state")


def _q(f: FuncInfo) -> str:
    return f.qualname.split(":")[1]


def _locals(f: FuncInfo) -> set[str]:
    out = set(f.params)
    for n in walk_scope(f.node):
        if isinstance(n, ast.Name) and isinstance(n.ctx, ast.Store):
            out.add(n.id)
    return out


def _idempotent(v: ast.expr, sn: str, attr: str) -> bool:
    if is_self_attr(v, sn, attr):
        return True
    if isinstance(v, ast.Call) and (dotted(v.func) or "").split(".")[-1] == "cast" and len(v.args) == 2:
        return is_self_attr(v.args[1], sn, attr)
    return False


# ---------------------------------------------------------------------------------------------- R3
def r3_weighted_sum(ctx: Context) -> None:
    prog = ctx.prog
    f = ctx.func(f"{BASE}.compute_loss")
    sim, real = f.bound_params[0], f.bound_params[1]
    n = normaliser(prog, f)
    D = str(n.rat(parse_expr(f"{real}.shape[1]")))
    w_atom = str(n.rat(parse_expr("self._check_coordinate_weights(D)".replace("D", f"{real}.shape[1]"))))
    filt_atom = str(n.rat(parse_expr(f"self._filter_data(self._check_coordinate_filters({real}.shape[1]), {sim})")))
    rets = returns_of(f)
    ctx.floor("R3", "return in BaseLoss.compute_loss", len(rets), 1)
    g = CFG(f.node)
    from ..util import reaching_events
    for r in rets:
        v = r.value
        term = None
        idx = None
        rng = None
        if isinstance(v, ast.Name):
            evs = reaching_events(g, v.id, g.nodes_of(r)[0])
            def _is_self_add(a) -> bool:
                return isinstance(a, ast.Assign) and isinstance(a.value, ast.BinOp) and isinstance(a.value.op, ast.Add) and (
                    (isinstance(a.value.left, ast.Name) and a.value.left.id == v.id) or (isinstance(a.value.right, ast.Name) and a.value.right.id == v.id))
            inits = [a for _, k, a in evs if k == "assign" and not _is_self_add(a)]
            augs = [a for _, k, a in evs if k == "aug"] + [a for _, k, a in evs if k == "assign" and _is_self_add(a)]
            other = [a for _, k, a in evs if k not in ("assign", "aug")]
            init_ok = len(inits) == 1 and isinstance(inits[0].value, ast.Constant) and inits[0].value.value in (0, 0.0)  # type: ignore[union-attr]
            ctx.check(init_ok and not other, "R3.accumulator", "BaseLoss.compute_loss:accumulator", "the sum starts from 0 and is only accumulated",
                      f"accumulator initialised by `{src(inits[0]) if inits else '?'}` / other writes {[src(o)[:40] for o in other]}", f, inits[0] if inits else r)
            ctx.check(len(augs) == 1 and (isinstance(augs[0], ast.Assign) or isinstance(augs[0].op, ast.Add)), "R3.accumulator", "BaseLoss.compute_loss:one-term", "exactly one term is added per coordinate",  # type: ignore[union-attr]
                      f"{len(augs)} accumulation statements", f, r)
            if augs:
                if isinstance(augs[0], ast.Assign):
                    bo = augs[0].value
                    term = bo.right if (isinstance(bo.left, ast.Name) and bo.left.id == v.id) else bo.left
                else:
                    term = augs[0].value  # type: ignore[union-attr]
                lp = getattr(augs[0], "_parent", None)
                if isinstance(lp, ast.For):
                    # the loop header is read canonically (sa/util.loop_binding): every name it binds is expressed through the induction symbol _I_, so
                    # `for i in range(D)`, `for i, block in enumerate(filtered)`, `for block, w in zip(filtered, weights)` give the same term
                    from ..util import IDX, _substitute, loop_binding
                    benv, counts = loop_binding(lp.target, lp.iter)
                    benv, counts = _through_list_locals(n, benv, counts)
                    for nm, ve in benv.items():
                        term = _substitute(term, nm, ve)
                    idx = IDX
                    cforms = {str(n.rat(c)) for c in counts}
                    ok_count = bool(cforms) and cforms <= {D, f"len({filt_atom})", str(n.rat(parse_expr(f"len({w_atom})"))), f"len({w_atom})"}
                    rng = parse_expr(f"range({real}.shape[1])") if ok_count else lp.iter
                    extra = [s for s in lp.body if s is not augs[0] and not (isinstance(s, ast.Expr) and isinstance(s.value, ast.Constant))]
                    ctx.check(not extra and not lp.orelse, "R3.accumulator", "BaseLoss.compute_loss:loop-body", "the coordinate loop does nothing but accumulate",
                              f"the coordinate loop also executes `{src(extra[0])[:60] if extra else 'else-branch'}`", f, lp)
        elif isinstance(v, ast.Call) and dotted(v.func) in ("sum", "np.sum", "math.fsum") and v.args and isinstance(v.args[0], (ast.GeneratorExp, ast.ListComp)):
            ge = v.args[0]
            if len(ge.generators) == 1 and not ge.generators[0].ifs:
                from ..util import IDX, _substitute, loop_binding
                benv, counts = loop_binding(ge.generators[0].target, ge.generators[0].iter)
                term = ge.elt
                for nm, ve in benv.items():
                    term = _substitute(term, nm, ve)
                idx = IDX
                cforms = {str(n.rat(c)) for c in counts}
                ok_count = bool(cforms) and cforms <= {D, f"len({filt_atom})", f"len({w_atom})"}
                rng = parse_expr(f"range({real}.shape[1])") if ok_count else ge.generators[0].iter
        if term is None or idx is None:
            raise AnalysisError(f"{f.loc(r)}: BaseLoss.compute_loss is not in a recognised weighted-sum form (loop accumulate / sum of a comprehension)")
        ctx.check(str(n.rat(rng)) == f"range({D})", "R3.range", "BaseLoss.compute_loss:all-coordinates", "the sum runs over every coordinate range(D), D = real_data.shape[1]",
                  f"the sum runs over `{src(rng)}`", f, rng)
        want = Rat(p_atom(f"self.compute_loss_1d({filt_atom}[{idx}],{real}[:,{idx}])")) * Rat(p_atom(f"{w_atom}[{idx}]"))
        got = n.rat(term)
        ctx.check(got.equals(want), "R3.term", "BaseLoss.compute_loss:term", "term i = compute_loss_1d(filtered[i], real[:, i]) * weights[i] (one index)",
                  f"term is `{str(got)[:260]}`", f, term)


def _through_list_locals(n, benv: dict, counts: list) -> tuple[dict, list]:
    """A loop over a local bound once to `[E(j) for j in H]` visits E(_I_): the element `L[_I_]` is E read through H's own canonical binding, and `len(L)` is H's
    trip count (`losses_1d = [loss(i) for i in range(D)]; for l, w in zip(losses_1d, weights)`)."""
    from ..util import IDX, _substitute, loop_binding
    out_env, out_counts = dict(benv), []
    comps = {}
    for nm, ve in benv.items():
        if isinstance(ve, ast.Subscript) and isinstance(ve.value, ast.Name) and src(ve.slice) == IDX:
            comp = n.env.get(ve.value.id)
            if isinstance(comp, ast.ListComp) and len(comp.generators) == 1 and not comp.generators[0].ifs:
                try:
                    e2, c2 = loop_binding(comp.generators[0].target, comp.generators[0].iter)
                except AnalysisError:
                    continue
                elt = comp.elt
                for k, v in e2.items():
                    elt = _substitute(elt, k, v)
                out_env[nm] = ast.fix_missing_locations(elt)
                comps[ve.value.id] = c2
    for c in counts:
        hit = next((nm for nm in comps if src(c).replace(" ", "") == f"len({nm})"), None)
        out_counts.extend(comps[hit] if hit else [c])
    return out_env, out_counts


# ---------------------------------------------------------------------------------------------- R4
def r4_validation(ctx: Context) -> None:
    prog = ctx.prog
    rows = []
    for meth, attr in (("_check_coordinate_weights", "coordinate_weights"), ("_check_coordinate_filters", "coordinate_filters")):
        f = ctx.func(f"{BASE}.{meth}")
        D = 2
        for k in (0, 1, 2, 3):
            given = [Opaque(f"{attr}[{i}]") for i in range(k)]
            obj = Obj("BaseLoss", {"coordinate_weights": None, "coordinate_filters": None})
            obj.attrs[attr] = given
            try:
                out = Evaluator(prog, f).run({f.self_name: obj, f.bound_params[0]: D})
            except Licence as exc:
                raise AnalysisError(f"licence check failed for {meth}: {exc}") from exc
            if k != D:
                ok = out.kind == "raise" and out.name == "ValueError"
                want = "raise ValueError"
            else:
                same_seq = out.kind == "return" and isinstance(out.value, (list, tuple)) and isinstance(given, (list, tuple)) and len(out.value) == len(given) \
                    and all(a_ is b_ for a_, b_ in zip(out.value, given))        # a tuple()/list() snapshot of the same items
                ok = out.kind == "return" and (out.value is given or same_seq)
                want = f"return self.{attr}"
            rows.append({"method": meth, "len": k, "D": D, "outcome": out.brief()[:60], "expected": want})
            cls = "len<D" if k < D else "len=D" if k == D else "len>D"
            ctx.check(ok, "R4.validation", f"BaseLoss.{meth}:{cls}:{k}", f"{attr} of length {k} with D={D}: {want}",
                      f"{attr} of length {k} with D={D} gives `{out.brief()[:80]}`, documented `{want}`", f, out.node)
        # default branch
        n = normaliser(prog, f)
        g = CFG(f.node)
        tests = [t for t in g.live if t.kind == "test" and n.canon(t.ast) in (n.canon(parse_expr(f"self.{attr} is None")), n.canon(parse_expr(f"self.{attr} is not None")))]
        ctx.check(bool(tests), "R4.default", f"BaseLoss.{meth}:none-test", f"{meth} distinguishes `{attr} is None`", f"no `{attr} is None` test", f, f.node)
        if attr == "coordinate_weights":
            from ..util import reaching_events
            for r in returns_of(f):
                if isinstance(r.value, ast.Name):
                    evs = reaching_events(g, r.value.id, g.nodes_of(r)[0])
                    vals = [a.value for _, k_, a in evs if k_ == "assign" and getattr(a, "value", None) is not None]  # type: ignore[union-attr]
                    p = f.bound_params[0]
                    want = n.rat(parse_expr(f"np.ones({p}) / {p}"))
                    alt = n.rat(parse_expr(f"np.full({p}, 1 / {p})"))
                    ok = any(n.rat(v).equals(want) or str(n.rat(v)) == str(alt) for v in vals)
                    ctx.check(ok, "R4.default", "BaseLoss._check_coordinate_weights:default", "default weights are uniform 1/D",
                              f"default weights are {[src(v) for v in vals]}", f, r)
    ctx.tables["C08.R4.validation"] = {"rows": rows, "exhaustive": True}
    ctx.sample(rows[0])


# ---------------------------------------------------------------------------------------------- R5
def r5_siblings(ctx: Context) -> None:
    prog = ctx.prog
    base = prog.find_class("BaseLoss")
    protected = ["compute_loss", "_filter_data", "_check_coordinate_weights", "_check_coordinate_filters"]
    for c in prog.subclasses(base, strict=True):
        for name in protected:
            if name in c.methods:
                reason = TABLED_OVERRIDES.get((c.name, name))
                ctx.check(reason is not None, "R5.overrides", f"{c.name}.{name}:override", f"{c.name}.{name} override is tabled: {reason}",
                          f"{c.name} overrides {name}: the common weighted-sum/validation machinery is bypassed", c.methods[name], c.methods[name].node)
        # constructors must hand weights/filters to the base class (C07-R1 decides the plumbing in detail)
    lk = prog.find_class("LikelihoodLoss")
    one_d = lk.methods.get("compute_loss_1d")
    ok = one_d is not None and any(isinstance(n, ast.Raise) for n in walk_scope(one_d.node)) and not returns_of(one_d)
    ctx.check(ok, "R5.overrides", "LikelihoodLoss.compute_loss_1d:raises", "the tabled special case cannot be used coordinate-wise (raises)",
              "LikelihoodLoss.compute_loss_1d no longer raises", one_d, one_d.node if one_d else None)


# ---------------------------------------------------------------------------------------------- R6
def r6_filters(ctx: Context) -> None:
    prog = ctx.prog
    f = ctx.func(f"{BASE}._filter_data")
    filters, sim = f.params[0], f.params[1]
    loops = [s for s in f.node.body if isinstance(s, ast.For)]
    ctx.floor("R6", "coordinate loop in _filter_data", len(loops), 1)
    lp = loops[0]
    ok = isinstance(lp.iter, ast.Call) and dotted(lp.iter.func) == "enumerate" and src(lp.iter.args[0]) == filters and isinstance(lp.target, ast.Tuple) and len(lp.target.elts) == 2
    ctx.check(ok, "R6.pairing", "BaseLoss._filter_data:loop", "one pass per (coordinate index, filter) pair, in order", f"loop is `for {src(lp.target)} in {src(lp.iter)}`", f, lp)
    if not ok:
        return
    i, flt = (src(x) for x in lp.target.elts)
    # None branch: some assignment selects a plain subscript of the simulated ensemble
    # filter branch: calls of the loop's filter variable
    filt_calls = [c for c in ast.walk(lp) if isinstance(c, ast.Call) and src(c.func) == flt]
    in_filter = {id(x) for c in filt_calls for x in ast.walk(c)}
    none_cands = [x for x in ast.walk(lp) if isinstance(x, ast.Subscript) and isinstance(x.ctx, ast.Load) and src(x.value) == sim and id(x) not in in_filter]
    if not none_cands or not filt_calls:
        raise AnalysisError(f"{f.loc(lp)}: _filter_data is not in a recognised per-coordinate form (None branch selecting sim[:, :, i]; filter applied per member); cannot decide R6")
    for v in none_cands:
        ctx.check(src(v.slice) in (f"(:, :, {i})", f":, :, {i}"), "R6.identity", "BaseLoss._filter_data:none-branch",
                  "a None filter leaves coordinate i of every member unchanged", f"the None branch selects `{src(v)}` instead of {sim}[:, :, {i}]", f, v)
    for c in filt_calls:
        comp = getattr(c, "_parent", None)
        gen = comp.generators[0] if isinstance(comp, (ast.ListComp, ast.GeneratorExp)) and len(comp.generators) == 1 else None
        j = gen.target.id if gen is not None and isinstance(gen.target, ast.Name) else None
        if j is None:
            raise AnalysisError(f"{f.loc(c)}: the filter is not applied inside a single comprehension over the ensemble members; cannot decide R6")
        nf = normaliser(ctx.prog, f, inline_locals=False)
        ok = len(c.args) == 1 and str(nf.rat(c.args[0])) == str(nf.rat(parse_expr(f"{sim}[{j}, :, {i}]"))) and src(gen.iter) in (f"range({sim}.shape[0])", f"range(len({sim}))", f"range(0, {sim}.shape[0])")
        if not ok and len(c.args) == 1:
            # the members visited by value: `for series in sim[:, :, i]` binds series to sim[_I_, :, i], once per member
            from ..util import IDX, _substitute, loop_binding, reaching_events
            try:
                env_, counts = loop_binding(gen.target, gen.iter)
            except AnalysisError:
                env_, counts = {}, []
            if env_:
                arg = c.args[0]
                # a local holding the coordinate block (`block = sim[:, :, i]` ... `filter_(block[j])`): read through its one reaching definition
                gcf = CFG(f.node)
                at_nodes = node_for(gcf, c)
                for nm_ in {x.id for x in ast.walk(arg) if isinstance(x, ast.Name)} - set(env_) - {sim, i, flt}:
                    evs = reaching_events(gcf, nm_, at_nodes[0]) if at_nodes else []
                    if len(evs) == 1 and evs[0][1] == "assign" and isinstance(evs[0][2], (ast.Assign, ast.AnnAssign)) and evs[0][2].value is not None:
                        arg = _substitute(arg, nm_, evs[0][2].value)
                # the trip count may sit in a once-bound local
                counts = [nf.env.get(k.id, k) if isinstance(k, ast.Name) and hasattr(nf, "env") else k for k in counts]
                from ..poly import single_assignment_env
                sae = single_assignment_env(f.node)
                counts = [sae.get(k.id, k) if isinstance(k, ast.Name) else k for k in counts]
                for nm_, ex_ in env_.items():
                    arg = _substitute(arg, nm_, ex_)
                ast.fix_missing_locations(arg)
                forms = {str(nf.rat(parse_expr(t))) for t in (f"{sim}[{IDX}, :, {i}]", f"{sim}[:, :, {i}][{IDX}]", f"{sim}[{IDX}][:, {i}]")}
                cnts = {str(nf.rat(parse_expr(t))) for t in (f"len({sim})", f"{sim}.shape[0]", f"len({sim}[:, :, {i}])", f"{sim}[:, :, {i}].shape[0]")}
                ok = str(nf.rat(arg)) in forms and any(str(nf.rat(k)) in cnts for k in counts)
        ctx.check(ok, "R6.pairing", "BaseLoss._filter_data:filter-branch", "filter i is applied to coordinate i of every ensemble member j",
                  f"filter applied as `{src(c)}` for `{j}` in `{src(gen.iter)}`: filter/coordinate/member indices do not pair up", f, c)
    # compute_loss: filters go to the simulated data only; the real series reaches compute_loss_1d unfiltered
    cl = ctx.func(f"{BASE}.compute_loss")
    calls = [c for c in calls_in(cl.node) if isinstance(c.func, ast.Attribute) and c.func.attr == "_filter_data"]
    ctx.floor("R6", "_filter_data call in compute_loss", len(calls), 1)
    ok = len(calls[0].args) == 2 and src(calls[0].args[1]) == cl.bound_params[0]
    ctx.check(ok, "R6.sim-only", "BaseLoss.compute_loss:filter-target", "filters are applied to the simulated ensemble", f"_filter_data called as `{src(calls[0])}`", cl, calls[0])
    real = cl.bound_params[1]
    rebound = [s for s in walk_scope(cl.node) if isinstance(s, (ast.Assign, ast.AugAssign, ast.AnnAssign)) and any(isinstance(t, ast.Name) and t.id == real for t in ast.walk(s.targets[0] if isinstance(s, ast.Assign) else s.target))]
    ctx.check(not rebound, "R6.sim-only", "BaseLoss.compute_loss:real-untouched", "the real data reach compute_loss_1d unfiltered", f"real data rebound by `{src(rebound[0]) if rebound else ''}`", cl, rebound[0] if rebound else None)


def dtype_rule(ctx: Context) -> None:
    """Results must not be stored into arrays that inherit the dtype of caller-supplied data (integer input would truncate them)."""
    from ..util import dtype_inheritance_sites
    funcs = [f for f in ctx.prog.all_functions() if f.module.name.startswith(('black_it.loss_functions',))]
    for f, node, what in dtype_inheritance_sites(ctx.prog, funcs):
        ctx.fail("R7.dtype", f"{f.qualname.split(':')[1]}:inherited-dtype:{' '.join(src(node).split())[:50]}",
                 f"{what}: for integer or lower-precision input the value is silently truncated / rounded on assignment, so the result is no longer what the definition gives", f, node)
    ctx.ok("R7.dtype", "c08:scanned", f"{len(funcs)} functions: no computed value is stored into an array of inherited dtype")


def _rename(e: ast.expr, old: str, new: str) -> ast.expr:
    class T(ast.NodeTransformer):
        def visit_Name(self, node: ast.Name):  # noqa: N802
            return ast.Name(id=new, ctx=node.ctx) if node.id == old else node
    return T().visit(ast.parse(src(e), mode="eval").body)


# ---------------------------------------------------------------------------------------------- closures built per coordinate
def late_binding_rule(ctx: Context) -> None:
    """A per-coordinate callable (filter wrapper, weighting function) built in a loop or comprehension must bind the coordinate's own value when it is
    built: a closure that reads the iteration variable when it *runs* sees the last coordinate's value for every coordinate, so filters / weights are no
    longer applied coordinate by coordinate (and permuting the coordinates changes the value)."""
    from ..util import late_binding_closures
    n_f = 0
    for f in ctx.prog.all_functions():
        if not (f.module.name.startswith("black_it.loss_functions") or f.module.name == "black_it.utils.time_series"):
            continue
        n_f += 1
        for c, var, loop in late_binding_closures(f):
            ctx.fail("R7.late-binding", f"{f.qualname.split(':')[1]}:{var}", f"`{src(c)[:70]}` is created once per iteration but looks `{var}` up when it runs: every one of the callables "
                     f"then uses the value `{var}` had in the last iteration (bind it with a default argument or functools.partial)", f, c)
    ctx.ok("R7.late-binding", "losses:closures", f"no closure of {n_f} loss / filter functions captures an iteration variable late")
    ctx.floor("R7", "loss / filter functions scanned for late-binding closures", n_f, 30)


def constructor_forwarding(ctx: Context) -> None:
    """Weights and filters given to a built-in loss reach BaseLoss under their own names (no positional argument misrouted by a changed base signature)."""
    from ..util import misrouted_super_arguments
    n, bad = misrouted_super_arguments(ctx.prog, "BaseLoss")
    for m, call, why in bad:
        ctx.fail("R8.constructor-forwarding", f"{m.qualname.split(':')[1]}:{' '.join(src(call).split())[:50]}", f"{why}: the weights / filters the user set are not the ones the loss uses", m, call)
    ctx.ok("R8.constructor-forwarding", "losses:super-init", f"{n} constructor forwarding call(s) in the loss hierarchy: every name lands on the parameter of the same name")
    ctx.floor("R8", "constructor forwarding calls in the loss hierarchy", n, 4)


def fp_state(ctx: Context) -> None:
    from ..util import unrestored_fp_state
    n, bad = unrestored_fp_state(ctx.prog)
    for f_, c_, why in bad:
        ctx.fail("R2.fp-error-mode", f"{f_.qualname.split(':')[1]}:seterr", why, f_, c_)
    ctx.ok("R2.fp-error-mode", "package:scanned", f"{n} functions: the floating-point error mode is never changed without a restoring finally")
