"""C09 - samplers are scheduled exactly as the chosen scheduler prescribes.

Decides the structural clauses:
 R1 round-robin index/update discipline, R2 RL bootstrap discipline, R3 exactly-one-of truth table.
Not decided: which sampler an epsilon-greedy agent actually chooses (runtime values).
"""
from __future__ import annotations

import ast
import itertools

from ..absint import Constructed, Evaluator, Opaque
from ..cfg import CFG
from ..errors import AnalysisError
from ..model import FuncInfo, dotted, src, walk_scope
from ..report import Context
from ..util import kwarg, return_leaves, attr_store_sites, calls_in, exactly_once_between, is_self_attr, node_for, normaliser, parse_expr, path_text, returns_of

LEVEL_TEXT = (
    "Static analysis of /repo's source (no execution): decides the structural clauses of C09 - "
    "round-robin index normal form samplers[_batch_id mod n], single-increment discipline of _batch_id, "
    "get_next_sampler/update called exactly once per loop iteration on every path (CFG path queries), RL "
    "bootstrap branch structure and Halton index provenance, and the exactly-one-of constructor guard "
    "evaluated on all 4 rows of its truth table (exhaustive). It decides these clauses, not which sampler an "
    "agent picks at run time."
    ' The product analysis of C10 contributes the families that are about *which* sampler runs: schedule-dependence of the sampler sequence and a later batch not run by the agent-chosen sampler; the bootstrap-position helper is decided semantically by small-scope abstract evaluation over line-ups of 1-3 samplers of 3 classes.'
    " The constructor truth table also has the row 'empty sequence of samplers together with a scheduler' (still both given: ValueError), decided on concrete sequences when the validator looks inside the argument."
    ' The label rule of C02 is included (the sampler recorded for a batch, and the number of rows attributed to it, are those of the sampler the scheduler handed out).'
    " The field-plumbing rule of C04 kept to the batch counter is included (batch i is counted across restores)."
)
TECHNIQUE = "AST/CFG path queries + formula normal form + exhaustive predicate-domain abstract evaluation"

RR = "black_it.schedulers.round_robin:RoundRobinScheduler"
RL = "black_it.schedulers.rl.rl_scheduler:RLScheduler"
CAL = "black_it.calibrator:Calibrator"


def run(ctx: Context) -> None:
    from ..calib import CalibrateView
    from . import c05, c10, c14
    v = CalibrateView(ctx.prog)
    # across checkpoint restores: the pickled scheduler must have digested the batch before the checkpoint is written
    ctx.rule(c14.r4_checkpoint_on_every_exit, v, "R4")
    # across repeated calibrate() calls: session start/end must not reset calibration-wide scheduler state
    ctx.rule(c05.r2d_session_scope)
    # the pickled scheduler must be rewritten by every checkpoint (its position advances every batch)
    from ..persist import Plumbing
    from . import c04
    ctx.rule(c04.r2_tables, Plumbing(ctx.prog))
    # "counted over its whole life ... across checkpoint restores": the batch counter comes back from a checkpoint as itself
    from . import c18
    ctx.rule(c18.restored_records_identity, (), ("current_batch_index",))
    before = len(ctx.undecided)
    # the sampler of batch k is the one the agent chose *for batch k*: which action a batch consumes must not depend on thread timing,
    # and only the first batch may bypass the agent (families shared with C10's product analysis)
    ctx.rule(c10.run_product, ("C09",), False, c10.plans(2, 2), "bootstrap-once", ("schedule-dependence", "later-batch"))
    product_decided = len(ctx.undecided) == before
    ctx.rule(r1_round_robin)
    ctx.rule(r1_calibrate_pairing)
    # the sampler that is recorded for a batch (and how many rows are attributed to it) is the one the scheduler handed out (label rule of C02)
    from ..calib import CalibrateView as _CV
    from . import c02
    ctx.rule(c02.r5_labels, _CV(ctx.prog))
    ctx.rule(r2_rl_bootstrap, product_decided)
    ctx.rule(r3_truth_table)


# ---------------------------------------------------------------------------------------------- R1
def r1_round_robin(ctx: Context) -> None:
    prog = ctx.prog
    gns = ctx.func(f"{RR}.get_next_sampler")
    rets = returns_of(gns)
    ctx.floor("R1", "return in RoundRobinScheduler.get_next_sampler", len(rets), 1)
    n = normaliser(prog, gns)
    want = str(n.rat(parse_expr("self._samplers[self._batch_id % len(self._samplers)]")))
    for r in rets:
        got = str(n.rat(r.value)) if r.value is not None else "None"
        ctx.check(got == want, "R1.index", "RoundRobinScheduler.get_next_sampler:return",
                  f"returns samplers[_batch_id mod len(samplers)] (normal form {want})",
                  f"round-robin selection is {got}, expected {want}", gns, r)
    # _batch_id write discipline
    cls = prog.find_class("RoundRobinScheduler")
    stores = prog.attr_stores(cls, inherited=False).get("_batch_id", [])
    ctx.floor("R1", "stores to RoundRobinScheduler._batch_id", len(stores), 2)
    for f, stmt, value in stores:
        ctx.analysed(f)
        if f.name == "__init__":
            ok = isinstance(stmt, (ast.Assign, ast.AnnAssign)) and isinstance(value, ast.Constant) and value.value == 0
            ctx.check(ok, "R1.init", "RoundRobinScheduler.__init__:_batch_id", "_batch_id initialised to the literal 0",
                      f"_batch_id initialised with {src(value)}", f, stmt)
        elif f.name == "update":
            ctx.check(_is_increment(stmt, "_batch_id", f.self_name), "R1.update-form", "RoundRobinScheduler.update:_batch_id",
                      "_batch_id advanced by exactly 1", f"_batch_id updated by `{src(stmt)}`", f, stmt)
        else:
            ctx.fail("R1.writers", f"RoundRobinScheduler.{f.name}:_batch_id",
                     f"_batch_id is written outside __init__/update: `{src(stmt)}`", f, stmt)
    upd = ctx.func(f"{RR}.update")
    g = CFG(upd.node)
    marks = set()
    for f, stmt, _ in stores:
        if f is upd:
            marks.update(g.nodes_of(stmt))
    miss, twice = exactly_once_between(g, g.entry, {g.exit}, marks)
    ctx.check(miss is None, "R1.update-once", "RoundRobinScheduler.update:every-path",
              "every normal path through update() increments _batch_id", "a path through update() skips the increment",
              upd, upd.node, path_text(upd, miss))
    ctx.check(twice is None, "R1.update-once", "RoundRobinScheduler.update:at-most-once",
              "no path through update() increments _batch_id twice", "a path through update() increments twice",
              upd, upd.node, path_text(upd, twice))
    # nobody else writes a scheduler's _batch_id
    for f, stmt, recv, _ in attr_store_sites(prog, "_batch_id"):
        if f.cls is not None and f.cls.name in ("RoundRobinScheduler", "CORSSampler") and isinstance(recv, ast.Name) and recv.id == f.self_name:
            continue
        ctx.fail("R1.writers", f"{f.qualname}:_batch_id", f"`{src(stmt)}` writes a _batch_id from outside its owner", f, stmt)
    # the counter is an instance attribute (so it is pickled with the scheduler)
    ctx.check("_batch_id" not in cls.class_vars, "R1.instance-attr", "RoundRobinScheduler._batch_id",
              "_batch_id is an instance attribute (pickled with the object)", "_batch_id is a class attribute", None, None)
    for name in ("__getstate__", "__reduce__", "__reduce_ex__", "__deepcopy__", "__setstate__"):
        m = prog.lookup_method(cls, name)
        ctx.check(m is None, "R1.pickle", f"RoundRobinScheduler.{name}", f"no custom {name} that could drop _batch_id",
                  f"custom {name} may drop scheduler position", m, m.node if m else None)


def _is_increment(stmt: ast.stmt, attr: str, self_name: str | None) -> bool:
    if isinstance(stmt, ast.AugAssign) and isinstance(stmt.op, ast.Add):
        return is_self_attr(stmt.target, self_name, attr) and isinstance(stmt.value, ast.Constant) and stmt.value.value == 1
    if isinstance(stmt, ast.Assign) and len(stmt.targets) == 1 and is_self_attr(stmt.targets[0], self_name, attr):
        v = stmt.value
        if isinstance(v, ast.BinOp) and isinstance(v.op, ast.Add):
            a, b = v.left, v.right
            for x, y in ((a, b), (b, a)):
                if is_self_attr(x, self_name, attr) and isinstance(y, ast.Constant) and y.value == 1:
                    return True
    return False


def batch_loop(ctx: Context, cal: FuncInfo, g: CFG):
    """The batch loop of calibrate: the `for` whose iterator depends on the n_batches parameter."""
    heads = [n for n in g.live if n.kind == "for" and any(isinstance(x, ast.Name) and x.id == "n_batches" for x in ast.walk(n.ast))]
    if len(heads) != 1:
        raise AnalysisError(f"anchor vanished: batch loop over n_batches in Calibrator.calibrate ({len(heads)} candidates)")
    return heads[0]


def scheduler_calls(ctx: Context, cal: FuncInfo, method: str) -> list[ast.Call]:
    out = []
    for c in calls_in(cal.node):
        for t in ctx.prog.resolve_call(cal, c):
            if isinstance(t, FuncInfo) and t.cls is not None and t.cls.name == "BaseScheduler" and t.name == method:
                out.append(c)
                break
    return out


def r1_calibrate_pairing(ctx: Context) -> None:
    cal = ctx.func(f"{CAL}.calibrate")
    g = CFG(cal.node)
    head = batch_loop(ctx, cal, g)
    body_start = [t for t, lab in head.succ if lab == "loop"][0]
    loop_nodes = g.loop_body_nodes(head)
    gets = scheduler_calls(ctx, cal, "get_next_sampler")
    upds = scheduler_calls(ctx, cal, "update")
    ctx.floor("R1", "scheduler.get_next_sampler() call in calibrate", len(gets), 1)
    ctx.floor("R1", "scheduler.update() call in calibrate", len(upds), 1)
    get_nodes = {n for c in gets for n in node_for(g, c)}
    upd_nodes = {n for c in upds for n in node_for(g, c)}
    for what, nodes in (("get_next_sampler", get_nodes), ("update", upd_nodes)):
        outside = [n for n in nodes if n not in loop_nodes]
        ctx.check(not outside, "R1.pairing", f"Calibrator.calibrate:{what}:in-loop",
                  f"every scheduler.{what}() call sits in the batch loop",
                  f"scheduler.{what}() is also called outside the batch loop", cal, outside[0].ast if outside else None)
    # iteration = from loop header (loop edge) to the next visit of the header or any loop exit
    exits = {n for n in g.live if n not in loop_nodes and any(p in loop_nodes for p, lab in n.pred if lab != "exc")}
    ends = {head} | exits
    for what, nodes in (("get_next_sampler", get_nodes), ("update", upd_nodes)):
        miss = g.path_avoiding(head, ends, nodes, labels={"next", "true", "false", "loop", "exhaust"})
        # the exhaust edge leaves the loop without an iteration: ignore the trivial path head->exit
        if miss is not None and len(miss) == 2 and miss[1] in exits and (miss[1], "exhaust") in head.succ:
            miss = _path_from(g, body_start, ends, nodes)
        twice = None
        for m in nodes:
            p = g.path_avoiding(m, nodes, ends, labels={"next", "true", "false", "loop"})
            if p is not None:
                twice = p
        ctx.check(miss is None, "R1.pairing", f"Calibrator.calibrate:{what}:every-iteration",
                  f"every completed iteration calls scheduler.{what}()", f"an iteration can complete without scheduler.{what}()",
                  cal, head.ast, path_text(cal, miss))
        ctx.check(twice is None, "R1.pairing", f"Calibrator.calibrate:{what}:once",
                  f"no iteration calls scheduler.{what}() twice", f"an iteration calls scheduler.{what}() twice",
                  cal, head.ast, path_text(cal, twice))
    # order: no path from update to get_next_sampler without passing the header
    bad = None
    for u in upd_nodes:
        p = g.path_avoiding(u, get_nodes, {head}, labels={"next", "true", "false", "loop"})
        if p is not None:
            bad = p
    ctx.check(bad is None, "R1.pairing", "Calibrator.calibrate:order", "get_next_sampler precedes update within an iteration",
              "update() can be followed by get_next_sampler() in the same iteration", cal, head.ast, path_text(cal, bad))
    # the sampler that is asked to sample is the value returned by get_next_sampler in this iteration
    samples = [c for c in calls_in(cal.node) if isinstance(c.func, ast.Attribute) and c.func.attr == "sample"
               and any(isinstance(t, FuncInfo) and t.cls is not None and t.cls.name == "BaseSampler" for t in ctx.prog.resolve_call(cal, c))]
    ctx.floor("R1", "<sampler>.sample() call in calibrate", len(samples), 1)
    for c in samples:
        recv = c.func.value  # type: ignore[union-attr]
        ok = False
        if isinstance(recv, ast.Name):
            defs = [n for n in walk_scope(cal.node) if isinstance(n, ast.Assign) and any(isinstance(t, ast.Name) and t.id == recv.id for t in n.targets)]
            ok = len(defs) == 1 and defs[0].value in gets
        elif isinstance(recv, ast.Call):
            ok = recv in gets
        ctx.check(ok, "R1.receiver", "Calibrator.calibrate:sample-receiver",
                  "the receiver of .sample() is the value returned by scheduler.get_next_sampler() in this iteration",
                  f"`{src(c.func)}` does not sample from the scheduler's designated sampler", cal, c)


def _path_from(g: CFG, start, ends, avoid):
    if start in avoid:
        return None
    if start in ends:
        return [start]
    p = g.path_avoiding(start, ends, avoid, labels={"next", "true", "false", "loop", "exhaust"})
    return p


# ---------------------------------------------------------------------------------------------- R2
def _bootstrap_index_attr(ctx: Context) -> tuple[str, ast.Assign, str]:
    """The attribute that receives the index returned by the bootstrap helper in RLScheduler.__init__ (with the unpacking statement and the sequence local)."""
    prog = ctx.prog
    init = ctx.func(f"{RL}.__init__")
    helper_calls = [c for c in calls_in(init.node) if any(isinstance(t, FuncInfo) and t.name == "_add_or_get_bootstrap_sampler" for t in prog.resolve_call(init, c))]
    ctx.floor("R2", "call of _add_or_get_bootstrap_sampler in __init__", len(helper_calls), 1)
    for s in walk_scope(init.node):
        if isinstance(s, ast.Assign) and s.value in helper_calls and isinstance(s.targets[0], ast.Tuple) and len(s.targets[0].elts) == 2:
            a, b = s.targets[0].elts
            if is_self_attr(b, init.self_name) and isinstance(a, ast.Name):
                return b.attr, s, a.id  # type: ignore[union-attr]
    raise AnalysisError(f"{init.loc(init.node)}: the (sequence, index) pair returned by _add_or_get_bootstrap_sampler is not unpacked into (local, self.<attr>); cannot decide R2")


def r2_rl_bootstrap(ctx: Context, product_decided: bool = False) -> None:
    prog = ctx.prog
    gns = ctx.func(f"{RL}.get_next_sampler")
    from ..util import require_readable
    _upd = prog.lookup_method(prog.find_class("RLScheduler"), "update")
    require_readable(prog, gns, *([_upd] if _upd is not None else []))
    g = CFG(gns.node)
    rets = returns_of(gns)
    ctx.floor("R2", "return in RLScheduler.get_next_sampler", len(rets), 1)
    n = normaliser(prog, gns)
    boot_attr, unpack, seq_name = _bootstrap_index_attr(ctx)
    boot = str(n.rat(parse_expr(f"self._samplers[self.{boot_attr}]")))
    # the first-batch test: `self.<X> is None` on an attribute the constructor sets to None and update() sets to a value
    from ..sync import SyncModel
    sm = SyncModel(prog)
    none_attrs = {a for (o, a), v in sm.init_heap.items() if o == "sched" and v == ("K", None)}
    tests = []
    for t in g.live:
        if t.kind == "test" and isinstance(t.ast, ast.Compare) and len(t.ast.ops) == 1 and isinstance(t.ast.ops[0], (ast.Is, ast.IsNot)) \
                and isinstance(t.ast.comparators[0], ast.Constant) and t.ast.comparators[0].value is None and is_self_attr(t.ast.left, gns.self_name) \
                and t.ast.left.attr in none_attrs:  # type: ignore[union-attr]
            tests.append(t)
    if not tests:
        if product_decided:
            ctx.ok("R2.guard", "RLScheduler.get_next_sampler:first-batch-test", "get_next_sampler does not branch on an `is None` test of a None-initialised attribute; "
                   "that only the very first batch is a bootstrap batch is decided by the product rule (P.bootstrap-once)")
        else:
            raise AnalysisError(f"{gns.loc(gns.node)}: get_next_sampler has no `self.<attr> is None` first-batch test and the product rule did not decide; cannot decide R2.guard")
    else:
        guard = tests[0].ast.left.attr  # type: ignore[union-attr]
        upd = prog.lookup_method(prog.find_class("RLScheduler"), "update")
        set_in_update = upd is not None and any(is_self_attr(el, upd.self_name, guard) for s_ in walk_scope(upd.node) if isinstance(s_, (ast.Assign, ast.AnnAssign))
                                                for el in (s_.targets if isinstance(s_, ast.Assign) else [s_.target]))
        ctx.check(set_in_update, "R2.guard", "RLScheduler.get_next_sampler:first-batch-test", f"get_next_sampler branches on `{guard} is None`, which update() sets",
                  f"the first-batch test reads `{guard}`, which update() never sets: every batch looks like the first", gns, tests[0].ast)
    leaves = return_leaves(gns)
    if leaves is None:
        raise AnalysisError(f"{gns.loc(gns.node)}: get_next_sampler is not an if/else tree of returns; cannot decide R2")
    test_texts = {src(t.ast): isinstance(t.ast.ops[0], ast.Is) for t in tests}  # type: ignore[union-attr]
    for conds, leaf in (leaves if tests else []):
        got = str(n.rat(leaf))
        first_batch = None
        for tst, truth in conds:
            while isinstance(tst, ast.UnaryOp) and isinstance(tst.op, ast.Not):      # `not (x is not None)` under truth t is `x is not None` under not t
                tst, truth = tst.operand, not truth
            if src(tst) in test_texts:
                first_batch = truth == test_texts[src(tst)]
        if first_batch is None:
            ctx.fail("R2.guard", f"RLScheduler.get_next_sampler:return:{got}", "a return of get_next_sampler is not controlled by the first-batch test", gns, gns.node)
            continue
        if first_batch:
            ctx.check(got == boot, "R2.bootstrap", "RLScheduler.get_next_sampler:first-batch-return",
                      "first batch returns samplers[<index of the bootstrap sampler>]", f"first batch returns {got}, expected {boot}", gns, gns.node)
        else:
            ok = isinstance(leaf, ast.Subscript) and str(n.rat(leaf.value)) == "self._samplers"
            idx = leaf.slice if isinstance(leaf, ast.Subscript) else None
            from_queue = idx is not None and _comes_from_queue_get(gns, n, idx, {a for (o, a) in sm.queue_of if o == "sched"})
            ctx.check(ok and from_queue, "R2.later", "RLScheduler.get_next_sampler:later-return",
                      "later batches return samplers[<index received from the agent's action queue>]",
                      f"later batches return {got}", gns, gns.node)
    # the bootstrap index is stored once, from the bootstrap helper, together with the sampler sequence passed on
    cls = prog.find_class("RLScheduler")
    stores = prog.attr_stores(cls, inherited=False).get(boot_attr, [])
    ctx.check(len(stores) == 1 and stores[0][0].name == "__init__", "R2.index-store", "RLScheduler.bootstrap-index:stores",
              f"{boot_attr} is stored exactly once, in __init__", f"{boot_attr} has {len(stores)} stores", None, None)
    init = ctx.func(f"{RL}.__init__")
    arg_ok = len(unpack.value.args) == 1 and isinstance(unpack.value.args[0], ast.Name) and unpack.value.args[0].id in init.params  # type: ignore[attr-defined]
    ctx.check(arg_ok, "R2.index-store", "RLScheduler.__init__:helper-arg", "the helper receives the `samplers` parameter",
              f"helper called with {src(unpack.value)}", init, unpack)
    sup = [c for c in calls_in(init.node) if isinstance(c.func, ast.Attribute) and c.func.attr == "__init__" and isinstance(c.func.value, ast.Call) and dotted(c.func.value.func) == "super"]
    first = (sup[0].args[0] if sup[0].args else kwarg(sup[0], "samplers")) if sup else None      # positional or by keyword
    ok = isinstance(first, ast.Name) and first.id == seq_name
    ctx.check(ok, "R2.index-store", "RLScheduler.__init__:super-arg",
              "the sequence returned by the helper is the one handed to BaseScheduler.__init__",
              "BaseScheduler.__init__ does not receive the helper's sequence (index and sequence disagree)", init, sup[0] if sup else init.node)
    binit = ctx.func("black_it.schedulers.base:BaseScheduler.__init__")
    st = [(s, v) for f, s, v in prog.attr_stores(prog.find_class("BaseScheduler"), inherited=False).get("_samplers", []) if f is binit]
    ok = len(st) == 1 and src(st[0][1]) in ("tuple(samplers)", "list(samplers)", "samplers")
    ctx.check(ok, "R2.index-store", "BaseScheduler.__init__:_samplers", "BaseScheduler stores the sequence order-preservingly",
              f"BaseScheduler.__init__ stores {src(st[0][1]) if st else '?'}", binit, st[0][0] if st else binit.node)
    _bootstrap_helper(ctx)


def _comes_from_queue_get(f: FuncInfo, n, idx: ast.expr, queue_attrs: set[str]) -> bool:
    text = str(n.rat(idx))
    return any(text.startswith(f"self.{q}.get(") for q in queue_attrs)


def _bootstrap_helper(ctx: Context) -> None:
    """Semantic reading first (small-scope abstract evaluation over line-ups of sampler classes), the syntactic reading of the two branches as a fallback."""
    try:
        _bootstrap_helper_semantic(ctx)
    except AnalysisError as exc:
        ctx.notes.setdefault("alternative_rule_undecided", []).append(f"C09/_bootstrap_helper_semantic: {exc}")
        _bootstrap_helper_syntactic(ctx)


def _bootstrap_helper_semantic(ctx: Context) -> None:
    """For every line-up of up to 3 samplers over the classes {Halton, A, B}: the helper returns (sequence, index) with sequence[index] a HaltonSampler;
    when a HaltonSampler is supplied the sequence is exactly the supplied one, otherwise the supplied one plus one new HaltonSampler."""
    import itertools

    from ..absint import Evaluator, Licence, Obj
    prog = ctx.prog
    h = ctx.func(f"{RL}._add_or_get_bootstrap_sampler")
    param = h.bound_params[0] if h.bound_params else h.params[-1]
    rows = 0
    bad: dict[str, str] = {}

    def cls_of(x) -> str | None:
        return getattr(x, "cls", None)

    for k in (1, 2, 3):
        for lu in itertools.product(("HaltonSampler", "SamplerA", "SamplerB"), repeat=k):
            for container in (list, tuple):
                objs = container(Obj(c, {}) for c in lu)
                try:
                    out = Evaluator(prog, h).run({param: objs})
                except Licence as exc:
                    raise AnalysisError(f"licence check failed for _add_or_get_bootstrap_sampler: {exc}") from exc
                rows += 1
                label = f"line-up {list(lu)}"
                if out.kind != "return" or not (isinstance(out.value, tuple) and len(out.value) == 2):
                    bad.setdefault("return-shape", f"{label}: {out.brief()[:80]} is not a (sequence, index) pair")
                    continue
                seq, idx = out.value
                if not isinstance(seq, (list, tuple)) or isinstance(idx, bool) or not isinstance(idx, int):
                    raise AnalysisError(f"_add_or_get_bootstrap_sampler returns abstract values the evaluator cannot read on {label}: {out.brief()[:80]}")
                if not 0 <= idx < len(seq) or cls_of(seq[idx]) != "HaltonSampler":
                    bad.setdefault("index-not-halton", f"{label}: returned index {idx} does not hold a HaltonSampler in {[cls_of(x) for x in seq]}")
                supplied = [x for x in seq if any(x is o for o in objs)]
                added = [x for x in seq if not any(x is o for o in objs)]
                if [id(x) for x in supplied] != [id(o) for o in objs]:
                    bad.setdefault("supplied-changed", f"{label}: the supplied samplers are not kept, in order, in the returned sequence {[cls_of(x) for x in seq]}")
                if "HaltonSampler" in lu:
                    if added:
                        bad.setdefault("present-but-added", f"{label}: a HaltonSampler is supplied, yet the helper adds {[cls_of(x) for x in added]} - a sampler outside the supplied set is scheduled "
                                       "(e.g. a truthiness test on the position: position 0 reads as 'absent')")
                elif [cls_of(x) for x in added] != ["HaltonSampler"]:
                    bad.setdefault("absent-not-added", f"{label}: no HaltonSampler supplied and the helper adds {[cls_of(x) for x in added]} instead of exactly one HaltonSampler")
    for key, msg in bad.items():
        ctx.fail("R2.helper", f"RLScheduler._add_or_get_bootstrap_sampler:{key}", msg, h, h.node)
    if not bad:
        ctx.ok("R2.helper", "RLScheduler._add_or_get_bootstrap_sampler:semantic", f"{rows} abstract evaluations (line-ups of 1-3 samplers over 3 classes, list and tuple): "
               "the returned index holds a HaltonSampler, supplied samplers are kept in order, one HaltonSampler is added iff none was supplied")
    ctx.tables["C09.R2.bootstrap_helper"] = {"rows": rows, "exhaustive": True, "scope": "line-ups of 1-3 samplers over {HaltonSampler, SamplerA, SamplerB}, as list and as tuple"}


def _bootstrap_helper_syntactic(ctx: Context) -> None:
    """Both branches return (sequence, index) with sequence[index] a HaltonSampler."""
    prog = ctx.prog
    h = ctx.func(f"{RL}._add_or_get_bootstrap_sampler")
    rets = returns_of(h)
    ctx.floor("R2", "return in _add_or_get_bootstrap_sampler", len(rets), 2)
    env = {}
    for s in walk_scope(h.node):
        if isinstance(s, ast.Assign) and len(s.targets) == 1 and isinstance(s.targets[0], ast.Name):
            env[s.targets[0].id] = s.value
    halton = lambda e: isinstance(e, ast.Call) and (dotted(e.func) or "").split(".")[-1] == "HaltonSampler"  # noqa: E731
    seen_present = seen_absent = False
    for r in rets:
        v = r.value
        if not (isinstance(v, ast.Tuple) and len(v.elts) == 2):
            ctx.fail("R2.helper", "RLScheduler._add_or_get_bootstrap_sampler:return-shape", f"return `{src(v)}` is not a (sequence, index) pair", h, r)
            continue
        seq, idx = v.elts
        parts = _concat_parts(seq, env)
        kinds = []
        for p in parts:
            if isinstance(p, ast.Name) and p.id == "samplers":
                kinds.append("S")
            elif isinstance(p, (ast.List, ast.Tuple)) and len(p.elts) == 1 and (halton(p.elts[0]) or (isinstance(p.elts[0], ast.Name) and halton(env.get(p.elts[0].id)))):
                kinds.append("H")
            else:
                kinds.append("?")
        idx_e = env.get(idx.id, idx) if isinstance(idx, ast.Name) else idx
        if kinds == ["S"]:
            seen_present = True
            ok = _is_lookup_of_halton(idx_e, env)
            if ok is None and isinstance(idx, ast.Name):
                ok = _loop_position_of_halton(h, idx.id)
            if ok is None:
                raise AnalysisError(f"{h.loc(r)}: cannot read how the present-branch index `{src(idx_e)[:60]}` is found; cannot decide R2.helper")
            ctx.check(ok, "R2.helper", "RLScheduler._add_or_get_bootstrap_sampler:present",
                      "when a HaltonSampler is present the index returned is its position in `samplers`",
                      f"present-branch index `{src(idx_e)}` is not the position of the HaltonSampler", h, r)
        elif "H" in kinds and "?" not in kinds:
            seen_absent = True
            k = kinds.index("H")
            expected = "0" if k == 0 else "len(samplers)" if kinds[:k] == ["S"] else None
            n = normaliser(prog, h, inline_locals=False)
            ok = expected is not None and str(n.rat(idx_e)) == str(n.rat(parse_expr(expected)))
            ctx.check(ok, "R2.helper", "RLScheduler._add_or_get_bootstrap_sampler:absent",
                      f"when absent, the new HaltonSampler sits at the returned index ({expected})",
                      f"absent-branch returns index `{src(idx_e)}` but the new HaltonSampler is at position {expected} of {kinds}", h, r)
            rest = [x for i, x in enumerate(kinds) if i != k]
            ctx.check(rest == ["S"], "R2.helper", "RLScheduler._add_or_get_bootstrap_sampler:absent-keeps-supplied",
                      "when absent, the returned sequence is the supplied samplers plus the bootstrap sampler",
                      f"absent-branch sequence is {kinds}", h, r)
        else:
            raise AnalysisError(f"{h.loc(r)}: cannot classify the sequence `{src(seq)}` returned by _add_or_get_bootstrap_sampler")
    ctx.check(seen_present and seen_absent, "R2.helper", "RLScheduler._add_or_get_bootstrap_sampler:branches",
              "both the present and the absent branch exist", "one of the present/absent branches is missing", h, h.node)
    # the branch taken depends on HaltonSampler membership
    g = CFG(h.node)
    tests = [t for t in g.live if t.kind == "test"]
    ok = any("HaltonSampler" in src(t.ast) for t in tests)
    ctx.check(ok, "R2.helper", "RLScheduler._add_or_get_bootstrap_sampler:test", "the branch is selected by a HaltonSampler membership test",
              "no HaltonSampler membership test selects the branch", h, h.node)


def _concat_parts(e: ast.expr, env: dict[str, ast.expr]) -> list[ast.expr]:
    if isinstance(e, ast.Call):
        fn = (dotted(e.func) or "").split(".")[-1]
        if fn in ("tuple", "list") and len(e.args) == 1:
            return _concat_parts(e.args[0], env)
        if fn == "cast" and len(e.args) == 2:
            return _concat_parts(e.args[1], env)
    if isinstance(e, ast.BinOp) and isinstance(e.op, ast.Add):
        return _concat_parts(e.left, env) + _concat_parts(e.right, env)
    if isinstance(e, ast.Starred):
        return _concat_parts(e.value, env)
    if isinstance(e, (ast.List, ast.Tuple)) and any(isinstance(x, ast.Starred) for x in e.elts):
        out: list[ast.expr] = []
        for x in e.elts:
            out.extend(_concat_parts(x, env) if isinstance(x, ast.Starred) else [ast.List(elts=[x], ctx=ast.Load())])
        return out
    if isinstance(e, ast.Name) and e.id in env and e.id != "samplers":
        return _concat_parts(env[e.id], env)
    return [e]


def _is_lookup_of_halton(idx: ast.expr, env: dict[str, ast.expr]) -> bool | None:
    # sampler_types[HaltonSampler] with sampler_types = {type(s): i for i, s in enumerate(samplers)}
    if isinstance(idx, ast.Subscript) and (dotted(idx.slice) or "").split(".")[-1] == "HaltonSampler":
        table = idx.value
        if isinstance(table, ast.Name):
            table = env.get(table.id, table)
        if isinstance(table, ast.DictComp) and len(table.generators) == 1:
            gen = table.generators[0]
            it = gen.iter
            if isinstance(it, ast.Call) and dotted(it.func) == "enumerate" and len(it.args) == 1 and src(it.args[0]) == "samplers" and isinstance(gen.target, ast.Tuple) and len(gen.target.elts) == 2:
                i, s = (src(x) for x in gen.target.elts)
                return src(table.key) == f"type({s})" and src(table.value) == i and not gen.ifs
    # next(i for i, s in enumerate(samplers) if isinstance(s, HaltonSampler)) / type(s) is HaltonSampler
    if isinstance(idx, ast.Call) and dotted(idx.func) == "next" and idx.args and isinstance(idx.args[0], ast.GeneratorExp):
        ge = idx.args[0]
        gen = ge.generators[0]
        it = gen.iter
        if isinstance(it, ast.Call) and dotted(it.func) == "enumerate" and src(it.args[0]) == "samplers" and isinstance(gen.target, ast.Tuple):
            i, s = (src(x) for x in gen.target.elts)
            cond = " ".join(src(c) for c in gen.ifs)
            return src(ge.elt) == i and "HaltonSampler" in cond and s in cond
    return None


def _loop_position_of_halton(h: FuncInfo, name: str) -> bool | None:
    """`name` is set, inside `for i, s in enumerate(samplers)`, to `i` under a test that `s` is a HaltonSampler (type identity / equality / isinstance)."""
    for lp in walk_scope(h.node):
        if isinstance(lp, ast.For) and isinstance(lp.iter, ast.Call) and dotted(lp.iter.func) == "enumerate" and lp.iter.args and src(lp.iter.args[0]) == h.params[-1] \
                and isinstance(lp.target, ast.Tuple) and len(lp.target.elts) == 2 and all(isinstance(x, ast.Name) for x in lp.target.elts):
            i, s_ = (x.id for x in lp.target.elts)  # type: ignore[union-attr]
            for st in ast.walk(lp):
                if isinstance(st, ast.Assign) and len(st.targets) == 1 and isinstance(st.targets[0], ast.Name) and st.targets[0].id == name:
                    par = getattr(st, "_parent", None)
                    if not isinstance(par, ast.If) or st not in par.body:
                        return False
                    cond = src(par.test)
                    return src(st.value) == i and "HaltonSampler" in cond and s_ in cond
    return None


# ---------------------------------------------------------------------------------------------- R3
def r3_truth_table(ctx: Context) -> None:
    prog = ctx.prog
    v = ctx.func(f"{CAL}._Calibrator__validate_samplers_and_scheduler_constructor_args") if prog.has_func(
        f"{CAL}._Calibrator__validate_samplers_and_scheduler_constructor_args") else ctx.func(
        f"{CAL}.__validate_samplers_and_scheduler_constructor_args")
    # the constructor must route both arguments through the validator and keep its result as the scheduler
    init = ctx.func(f"{CAL}.__init__")
    calls = [c for c in calls_in(init.node) if isinstance(c.func, ast.Attribute) and c.func.attr == v.name]
    ctx.floor("R3", "call of the constructor-argument validator in Calibrator.__init__", len(calls), 1)
    c = calls[0]
    ok = [src(a) for a in c.args] == ["samplers", "scheduler"] or {k.arg: src(k.value) for k in c.keywords} == {"samplers": "samplers", "scheduler": "scheduler"}
    ctx.check(ok, "R3.routing", "Calibrator.__init__:validator-args", "the validator receives (samplers, scheduler)",
              f"validator called as {src(c)}", init, c)
    st = [s for f, s, val in prog.attr_stores(prog.find_class("Calibrator"), inherited=False).get("scheduler", []) if f is init]
    ok = len(st) == 1 and isinstance(st[0], ast.Assign) and st[0].value is c
    ctx.check(ok, "R3.routing", "Calibrator.__init__:scheduler-store", "self.scheduler is the validator's result",
              "self.scheduler in __init__ is not the validator's result", init, st[0] if st else init.node)
    rows = []
    table = {}
    from ..absint import Licence
    cases = [(s_none, c_none, None) for s_none, c_none in itertools.product([True, False], repeat=2)]
    # the validator may look inside the sequence (emptiness): the same four rows are then decided on a concrete two-element line-up, and an empty
    # sequence handed in together with a scheduler is still "both given"
    cases.append((False, False, "empty"))
    for s_none, c_none, shape in cases:
        given = Opaque("samplers") if shape is None else []
        env = {"cls": Opaque("cls"), "samplers": None if s_none else given,
               "scheduler": None if c_none else Opaque("scheduler")}
        ev = Evaluator(prog, v)
        try:
            out = ev.run(env)
        except Licence:
            if shape == "empty":
                raise
            given = [Opaque("sampler0"), Opaque("sampler1")]
            env["samplers"] = None if s_none else given
            out = Evaluator(prog, v).run(env)
        if out.kind == "raise":
            got = f"raise {out.name}"
        else:
            val = out.value
            first_ = None
            if isinstance(val, Constructed):
                first_ = val.args[0] if val.args else dict(val.kwargs).get("samplers")       # positional or `samplers=`
            same_seq = bool(isinstance(first_, (list, tuple)) and isinstance(given, list)
                            and len(first_) == len(given) and all(a_ is b_ for a_, b_ in zip(first_, given)))     # a tuple()/list() copy of the line-up
            if isinstance(val, Constructed) and val.cls == "RoundRobinScheduler" and first_ is not None and len(val.args) + len(val.kwargs) == 1 \
                    and (first_ is given or same_seq or (isinstance(first_, Opaque) and first_.tag == "samplers")):
                got = "RoundRobinScheduler(samplers)"
            elif isinstance(val, Opaque) and val.tag == "scheduler":
                got = "scheduler"
            else:
                got = f"return {val!r}"
        if s_none == c_none:
            want = "raise ValueError"
        elif s_none:
            want = "scheduler"
        else:
            want = "RoundRobinScheduler(samplers)"
        row = {"samplers_is_None": s_none, "scheduler_is_None": c_none, "outcome": got, "expected": want}
        if shape is not None:
            row["samplers"] = "empty sequence"
        rows.append(row)
        key = f"samplers={'None' if s_none else 'given' if shape is None else 'given(empty)'},scheduler={'None' if c_none else 'given'}"
        ctx.check(got == want, "R3.truth-table", f"Calibrator.validate-args:{key}",
                  f"{key} -> {want}", f"constructor with {key} gives `{got}`, documented `{want}`", v, out.node)
    ctx.tables["C09.R3.truth_table"] = {"rows": rows, "exhaustive": True}
    ctx.sample({"truth_table_row": rows[0]})
