"""C20 - time-series filters and the moment summary equal their definitions (structural clauses)."""
from __future__ import annotations

import ast

from ..cfg import CFG
from ..errors import AnalysisError
from ..model import FuncInfo, dotted, src, walk_scope
from ..report import Context
from ..util import calls_in, kwarg, node_for, normaliser, parse_expr, path_text, reaching_events, returns_of

LEVEL_TEXT = (
    "Static analysis of black_it/utils/time_series.py (no execution): hp_filter returns (series - trend, trend) with trend "
    "the solution handed back by spsolve of (I + lamb * K'K) against the series, K built by dia_matrix from the [1,-2,1] "
    "band at offsets [0,1,2] with shape (n-2, n) (normal forms of the constructor arguments); the three wrappers equal "
    "their definitions (cycle at lambda 1600; log - hp(log,1600)[1]; diff(log, prepend=log[0]) - mean of it); the "
    "18-vector of get_mom_ts_1d is allocated with 18 entries, every index 0..17 is stored, and nan_to_num is applied to "
    "that very array (in place, or its result returned) after its last store on every path to the return. The numerical "
    "solution of the sparse system and the finiteness of third-party statistics are not decided."
    ' (R5) argument checks of the filters and of the summary do not cut into the stated domain: a value guard separates at zero (no tolerance), a length guard accepts every stated length.'
    " A helper that changes numpy's process-wide floating-point error mode restores it in a finally (or uses np.errstate)."
)
TECHNIQUE = "formula normal forms of constructor/return expressions + must-pass-through CFG query"

M = "black_it.utils.time_series"


def run(ctx: Context) -> None:
    # the summaries and filters are functions of the series: the module keeps nothing between calls (module-state rule of C05, kept to utils/time_series.py)
    from . import c18 as _c18
    ctx.rule(_c18.no_shared_tables, "black_it/utils/time_series.py")
    ctx.rule(hp)
    ctx.rule(wrappers)
    ctx.rule(moments)
    ctx.rule(no_state)
    ctx.rule(totality)


def hp(ctx: Context) -> None:
    f = ctx.func(f"{M}:hp_filter")
    n = normaliser(ctx.prog, f)
    ts, lamb = f.params[0], f.params[1]
    solves = [c for c in calls_in(f.node) if (dotted(c.func) or "").split(".")[-1] == "spsolve"]
    ctx.floor("R4", "spsolve call in hp_filter", len(solves), 1)
    sv = solves[0]
    trend_atom = str(n.rat(sv))
    rets = returns_of(f)
    ctx.floor("R1", "return in hp_filter", len(rets), 1)
    for r in rets:
        v = r.value
        ok = isinstance(v, ast.Tuple) and len(v.elts) == 2
        if ok:
            cyc, tr = n.rat(v.elts[0]), n.rat(v.elts[1])
            from ..poly import Rat, p_atom
            T = Rat(p_atom(trend_atom))
            ok = str(tr) == trend_atom and cyc.equals(n.rat(parse_expr(ts)) - T)
        ctx.check(ok, "R1.decomposition", "hp_filter:return", "returns (series - trend, trend): cycle first, trend second, summing to the input",
                  f"hp_filter returns `{src(v)}` (normalised {str(n.rat(v))[:120]})", f, r)
    # the system
    A, b = (sv.args + [None, None])[:2]
    ctx.check(b is not None and str(n.rat(b)) == ts, "R4.rhs", "hp_filter:rhs", "the right-hand side is the series", f"right-hand side is `{src(b) if b is not None else '?'}`", f, sv)
    nobs = f"len({ts})"
    K = f"scipy.sparse.dia_matrix((numpy.repeat(([1],[-2],[1]),{nobs},axis=1),numpy.array((0,1,2))),shape=(-2 + {nobs},{nobs}))"
    got_A = str(n.rat(A)) if A is not None else "?"
    want_forms = set()
    nn = normaliser(ctx.prog, f)
    for k_text in ("sps.dia_matrix((np.repeat([[1.0], [-2.0], [1.0]], len(TS), axis=1), np.array([0, 1, 2])), shape=(len(TS) - 2, len(TS)))",):
        k_text = k_text.replace("TS", ts)
        for form in (f"sps.eye(len({ts}), len({ts})) + {lamb} * ({k_text}).T.dot({k_text})",
                     f"sps.eye(len({ts})) + {lamb} * ({k_text}).T.dot({k_text})",
                     f"sps.eye(len({ts}), len({ts})) + {lamb} * (({k_text}).T @ ({k_text}))"):
            want_forms.add(str(nn.rat(parse_expr(form))))
    if got_A not in want_forms and not ("dia_matrix" in got_A and "numpy.repeat" in got_A and "eye" in got_A):
        raise AnalysisError(f"{f.loc(sv)}: the HP system is built with constructs the rule table does not know ({got_A[:120]}); cannot decide R4")
    ctx.check(got_A in want_forms, "R4.system", "hp_filter:system", "solves (I + lamb * K'K) trend = series with K the second-difference band [1,-2,1], shape (n-2, n)",
              f"the solved system is `{got_A[:300]}`", f, sv)


def wrappers(ctx: Context) -> None:
    prog = ctx.prog
    specs = {
        "hp_cycle_lamb1600_filter": ["hp_filter(time_series, lamb=1600)[0]", "hp_filter(time_series, 1600)[0]"],
        "log_and_hp_filter": ["np.log(time_series) - hp_filter(np.log(time_series), lamb=1600)[1]", "np.log(time_series) - hp_filter(np.log(time_series), 1600)[1]"],
        "diff_log_demean_filter": ["np.diff(np.log(time_series), prepend=np.log(time_series)[0]) - np.mean(np.diff(np.log(time_series), prepend=np.log(time_series)[0]))"],
    }
    for name, forms in specs.items():
        f = ctx.func(f"{M}:{name}")
        n = normaliser(prog, f)
        p = f.params[0]
        wants = [n.rat(parse_expr(t.replace("time_series", p))) for t in forms]
        # canonicalise the lamb keyword/positional spelling
        for r in returns_of(f):
            got = n.rat(r.value)
            ok = any(got.equals(w) or _same_mod_kw(str(got), str(w)) for w in wants)
            ctx.check(ok, "R2.wrapper", f"{name}:return", f"{name} == {forms[0].replace('time_series', p)}",
                      f"{name} returns `{str(got)[:200]}`", f, r)


def _same_mod_kw(a: str, b: str) -> bool:
    return a.replace("lamb=1600", "1600") == b.replace("lamb=1600", "1600")


def moments(ctx: Context) -> None:
    f = ctx.func(f"{M}:get_mom_ts_1d")
    from ..util import require_readable
    require_readable(ctx.prog, f, ctx.func(f"{M}:get_mom_ts"))
    g = CFG(f.node)
    rets = returns_of(f)
    ctx.floor("R3", "return in get_mom_ts_1d", len(rets), 1)
    for r in rets:
        rn = g.nodes_of(r)[0]
        v = r.value
        sanitised_expr = isinstance(v, ast.Call) and (dotted(v.func) or "").split(".")[-1] == "nan_to_num"
        vec = v.args[0] if sanitised_expr and v.args else v
        if not isinstance(vec, ast.Name):
            ctx.fail("R3.vector", "get_mom_ts_1d:return", f"returns `{src(v)}`: cannot identify the moment vector", f, r)
            continue
        name = vec.id
        evs = reaching_events(g, name, rn)
        # `vec = np.nan_to_num(vec[, copy=True])` re-binds the name to the sanitised vector: it is the sanitising step, not an allocation or a store
        def _is_sanitising(a) -> bool:
            v_ = getattr(a, "value", None)
            return isinstance(a, (ast.Assign, ast.AnnAssign)) and isinstance(v_, ast.Call) and (dotted(v_.func) or "").split(".")[-1] == "nan_to_num" and v_.args and src(v_.args[0]) == name
        evs = [(nd, k, a) for nd, k, a in evs if not _is_sanitising(a)]
        allocs = [a for _, k, a in evs if k == "assign"]
        stores = [(nd, a) for nd, k, a in evs if k == "sub"]
        fixed = len(allocs) == 1 and isinstance(allocs[0].value, ast.Call) and (dotted(allocs[0].value.func) or "").split(".")[-1] in ("zeros", "empty", "full") \
            and allocs[0].value.args and isinstance(allocs[0].value.args[0], ast.Constant)  # type: ignore[union-attr]
        if fixed:
            # filled entry by entry: the documented 18 entries, each stored
            ok = allocs[0].value.args[0].value == 18  # type: ignore[union-attr]
            ctx.check(ok, "R3.vector", "get_mom_ts_1d:alloc", "the summary has 18 entries", f"summary allocated by `{src(allocs[0].value) if allocs else '?'}`", f, allocs[0] if allocs else r)  # type: ignore[union-attr]
            def _int_const(e_: ast.expr) -> int | None:
                if isinstance(e_, ast.Constant) and type(e_.value) is int:
                    return e_.value
                if isinstance(e_, ast.BinOp) and isinstance(e_.op, (ast.Add, ast.Sub, ast.Mult, ast.FloorDiv)):
                    l_, r_ = _int_const(e_.left), _int_const(e_.right)
                    if l_ is None or r_ is None or (isinstance(e_.op, ast.FloorDiv) and r_ == 0):
                        return None
                    return l_ + r_ if isinstance(e_.op, ast.Add) else l_ - r_ if isinstance(e_.op, ast.Sub) else l_ * r_ if isinstance(e_.op, ast.Mult) else l_ // r_
                return None
            store_idx = [_int_const(a.targets[0].slice) for _, a in stores if isinstance(a, ast.Assign)]  # type: ignore[union-attr]
            if any(x is None for x in store_idx):
                raise AnalysisError(f"{f.loc(r)}: the summary is filled at positions that are not integer literals (a loop or a helper the front end could not spell out); cannot decide which entries are stored")
            idxs = sorted(set(store_idx))
            ctx.check(idxs == list(range(18)), "R3.vector", "get_mom_ts_1d:all-entries", "every entry 0..17 is stored", f"entries stored: {idxs}", f, r)
        else:
            # assembled some other way (concatenation of blocks, ...): its length is a runtime quantity; what is decided is that it is sanitised before being returned
            ctx.notes["get_mom_ts_1d_vector"] = f"assembled by `{src(allocs[0].value)[:80] if allocs else '?'}` - length not decided"
            stores = stores + [(nd, a) for nd, k, a in evs if k == "assign"]
        if sanitised_expr:
            ctx.ok("R3.sanitise", "get_mom_ts_1d:nan_to_num", "the returned value is nan_to_num(summary)")
            continue
        # in-place form: nan_to_num(vec, copy=False) (or vec = nan_to_num(vec)) after the last store, on every path
        sanit = []
        for c in calls_in(f.node):
            if (dotted(c.func) or "").split(".")[-1] == "nan_to_num" and c.args and src(c.args[0]) == name:
                cp = kwarg(c, "copy", 1)
                inplace = isinstance(cp, ast.Constant) and cp.value is False
                st = c
                par = getattr(c, "_parent", None)
                rebinds = isinstance(par, (ast.Assign, ast.AnnAssign)) and src(par.targets[0] if isinstance(par, ast.Assign) else par.target) == name
                if inplace or rebinds:
                    sanit.append(c)
                else:
                    ctx.fail("R3.sanitise", "get_mom_ts_1d:nan_to_num-discarded", f"`{src(c)}` works on a copy whose result is discarded: NaN/inf moments are returned", f, c)
        sn = {x for c in sanit for x in node_for(g, c)}
        if not sn:
            ctx.fail("R3.sanitise", "get_mom_ts_1d:nan_to_num", "the moment vector is returned without nan_to_num: constant series give NaN moments", f, r)
            continue
        worst = None
        for nd, a in stores:
            p = g.path_avoiding(nd, {rn}, sn)
            if p is not None:
                worst = (a, p)
        ctx.check(worst is None, "R3.sanitise", "get_mom_ts_1d:nan_to_num-after-last-store", "nan_to_num runs after the last store on every path to the return",
                  f"`{src(worst[0]) if worst else ''}` can reach the return without a later nan_to_num", f, worst[0] if worst else r, path_text(f, worst[1]) if worst else None)
        p = g.path_avoiding(g.entry, {rn}, sn)
        ctx.check(p is None, "R3.sanitise", "get_mom_ts_1d:nan_to_num-every-path", "every path to the return sanitises the vector",
                  "a path returns the vector without nan_to_num", f, r, path_text(f, p))
    # get_mom_ts applies the 1-d summary per coordinate
    f2 = ctx.func(f"{M}:get_mom_ts")
    ok = any(any(isinstance(t, FuncInfo) and t.name == "get_mom_ts_1d" for t in ctx.prog.resolve_call(f2, c)) for c in calls_in(f2.node, scope_only=False))
    ctx.check(ok, "R3.vector", "get_mom_ts:uses-1d", "get_mom_ts maps get_mom_ts_1d over the coordinates", "get_mom_ts does not use get_mom_ts_1d", f2, f2.node)


def no_state(ctx: Context) -> None:
    """The helpers are functions of their arguments: no module-level cache / global written by utils/time_series.py."""
    prog = ctx.prog
    mod = "black_it.utils.time_series"
    consts = prog.module_consts.get(mod, {})
    n = 0
    for f in prog.all_functions():
        if f.module.name != mod:
            continue
        n += 1
        local_names = set(f.params) | {x.id for x in walk_scope(f.node) if isinstance(x, ast.Name) and isinstance(x.ctx, ast.Store)}
        for x in walk_scope(f.node):
            if isinstance(x, ast.Global):
                ctx.fail("R5.no-state", f"{f.name}:global:{','.join(x.names)}", f"`{src(x)}`: the helper keeps state between calls", f, x)
            tg = None
            if isinstance(x, ast.Assign):
                tg = x.targets[0]
            elif isinstance(x, (ast.AugAssign, ast.AnnAssign)):
                tg = x.target
            if isinstance(tg, ast.Subscript) and isinstance(tg.value, ast.Name) and tg.value.id in consts and tg.value.id not in local_names:
                ctx.fail("R5.no-state", f"{f.name}:module-cache:{tg.value.id}", f"`{src(x)[:80]}` fills the module-level `{tg.value.id}`: later calls reuse what an earlier call computed "
                         "(a result cached under a key that omits an argument is wrong for the other argument values)", f, x)
            if isinstance(x, ast.Call) and isinstance(x.func, ast.Attribute) and x.func.attr in ("setdefault", "update", "append", "add") and isinstance(x.func.value, ast.Name) \
                    and x.func.value.id in consts and x.func.value.id not in local_names:
                ctx.fail("R5.no-state", f"{f.name}:module-cache:{x.func.value.id}", f"`{src(x)[:80]}` mutates module-level `{x.func.value.id}`", f, x)
        for d in f.node.decorator_list:
            nm = (dotted(d) or (dotted(d.func) if isinstance(d, ast.Call) else "") or "").split(".")[-1]
            if nm in ("lru_cache", "cache"):
                from ..util import is_pure_cached_function
                if is_pure_cached_function(prog, f):
                    ctx.ok("R5.no-state", f"{f.name}:pure-cache:{nm}", f"@{nm} on a closed function whose result no caller writes to: not observable")
                    continue
                ctx.fail("R5.no-state", f"{f.name}:decorator:{nm}", f"@{nm} on {f.name}: results are cached across calls", f, d)
    ctx.floor("R5", "functions of utils/time_series.py", n, 6)
    # process-wide numpy error mode: a helper that switches it and does not restore it on an exceptional exit makes later calls (the moment summary on a
    # constant series: 0/0 -> nan -> nan_to_num) raise instead
    from ..util import unrestored_fp_state
    _n, bad = unrestored_fp_state(prog)
    for f_, c_, why in bad:
        ctx.fail("R5.no-state", f"{f_.name}:fp-error-mode", why, f_, c_)
    ctx.ok("R5.no-state", "time_series:scanned", f"{n} helpers write no module-level state")


# ---------------------------------------------------------------------------------------------- totality on the stated domain
def _guards(f):
    """(condition that must hold, node) for every argument check of `f`: check_arg / _assert / assert / `if c: raise`."""
    out = []
    for st in walk_scope(f.node):
        if isinstance(st, ast.Expr) and isinstance(st.value, ast.Call) and (dotted(st.value.func) or "").split(".")[-1] in ("check_arg", "_assert") and st.value.args:
            out.append((st.value.args[0], False, st))
        elif isinstance(st, ast.Assert):
            out.append((st.test, False, st))
        elif isinstance(st, ast.If) and st.body and all(isinstance(b, ast.Raise) for b in st.body) and not st.orelse:
            out.append((st.test, True, st))     # raises when the test holds
    return out


def totality(ctx: Context) -> None:
    """The filters and the summary are defined on the whole stated domain (every positive value for the log filters, every positive lambda,
    every length from 3 - 8 for the summary): an argument check may reject what is outside it (x <= 0, non-finite, too short) but not part of it.
    Decided for guards that compare a parameter with a threshold: the threshold of a value guard must be zero, that of a length guard at most the
    shortest stated length."""
    names = ("hp_filter", "hp_cycle_lamb1600_filter", "log_and_hp_filter", "diff_log_demean_filter", "get_mom_ts_1d", "get_mom_ts")
    n_guards = 0
    for nm in names:
        f = ctx.func(f"{M}:{nm}")
        min_len = 8 if nm.startswith("get_mom") else 3
        for cond, negated, st in _guards(f):
            for cmp in [x for x in ast.walk(cond) if isinstance(x, ast.Compare) and len(x.ops) == 1]:
                l, r, op = cmp.left, cmp.comparators[0], cmp.ops[0]
                for a, b, flip in ((l, r, False), (r, l, True)):
                    uses_param = any(isinstance(x, ast.Name) and x.id in f.params for x in ast.walk(a))
                    b_uses_param = any(isinstance(x, ast.Name) and x.id in f.params for x in ast.walk(b))
                    if not uses_param or b_uses_param:
                        continue
                    n_guards += 1
                    is_len = any((isinstance(x, ast.Call) and (dotted(x.func) or "") == "len") or (isinstance(x, ast.Attribute) and x.attr in ("shape", "size", "ndim")) for x in ast.walk(a))
                    thr = b.value if isinstance(b, ast.Constant) and isinstance(b.value, (int, float)) and not isinstance(b.value, bool) else None
                    if isinstance(b, ast.UnaryOp) and isinstance(b.op, ast.USub) and isinstance(b.operand, ast.Constant) and isinstance(b.operand.value, (int, float)):
                        thr = -b.operand.value
                    key = f"{nm}:guard:{' '.join(src(cmp).split())[:50]}"
                    if is_len:
                        if any(isinstance(x, ast.Attribute) and x.attr == "ndim" for x in ast.walk(a)) or thr is None:
                            continue
                        # the guard demands len OP thr (or raises when it holds): the smallest accepted length must not exceed the stated minimum
                        o = type(op)
                        if flip:
                            o = {ast.Lt: ast.Gt, ast.Gt: ast.Lt, ast.LtE: ast.GtE, ast.GtE: ast.LtE}.get(o, o)
                        if negated:
                            o = {ast.Lt: ast.GtE, ast.LtE: ast.Gt, ast.Gt: ast.LtE, ast.GtE: ast.Lt}.get(o, o)
                        smallest = thr if o is ast.GtE else thr + 1 if o is ast.Gt else None
                        if smallest is None:
                            continue
                        ctx.check(smallest <= min_len, "R5.total", key, f"the length check of {nm} accepts every stated length (>= {min_len})",
                                  f"`{src(cmp)}` makes {nm} reject series shorter than {smallest}, although the definition holds from length {min_len}", f, st)
                        continue
                    if thr is None:
                        tol = any(isinstance(x, (ast.Name, ast.Attribute)) and any(k in (x.id if isinstance(x, ast.Name) else x.attr).lower() for k in ("eps", "tiny", "tol", "small", "min_"))
                                  for x in ast.walk(b)) or any(isinstance(x, ast.Call) and (dotted(x.func) or "").split(".")[-1] in ("finfo", "spacing", "nextafter") for x in ast.walk(b))
                        if tol:
                            ctx.fail("R5.total", key, f"`{src(cmp)}` compares the argument of {nm} with the tolerance `{src(b)[:40]}`: positive values below it belong to the stated domain "
                                     "(every positive value / every positive lambda) and are rejected", f, st)
                        continue
                    ctx.check(thr == 0, "R5.total", key, f"the value check of {nm} separates at zero",
                              f"`{src(cmp)}` makes {nm} reject part of its stated domain: the threshold is {thr}, not 0 (every positive value / every positive lambda is valid)", f, st)
    ctx.ok("R5.total", "time_series:guards", f"{n_guards} threshold comparison(s) found in argument checks of the time-series helpers: none cuts into the stated domain")
