"""C05 - resuming from a checkpoint equals never having stopped (state-capture completeness)."""
from __future__ import annotations

import ast

from ..alias import VIEW_ATTRS, VIEW_FUNCS, VIEW_METHODS
from ..calib import NORMAL, CalibrateView
from ..cfg import CFG
from ..errors import AnalysisError
from ..model import ClassInfo, FuncInfo, dotted, mangle, src, walk_scope
from ..persist import Plumbing
from ..report import Context
from ..util import attr_store_sites, calls_in, is_self_attr, kwarg, node_for, path_text
from . import c04, c14

LEVEL_TEXT = (
    "Static analysis (no execution): everything that carries information from batch k to batch k+1 must live where the "
    "checkpoint captures it. (R1) re-seeding of the samplers is reached iff current_batch_index == 0, before the session, "
    "from calibrate only, and current_batch_index and the generator state travel through the checkpoint unchanged "
    "(composition of the extracted plumbing maps); (R2) no function of samplers / schedulers / calibrator / losses writes "
    "module-level or class-level state, the batch loop carries no local across iterations, no class reachable from the "
    "pickled scheduler customises pickling, no attribute of such a class is a numpy *view* of another attribute (pickle "
    "keeps identity but not view sharing), no branch in such a class compares a stored repository object with another one "
    "by identity (`is`, or `==`/`in` on a class without `__eq__`: a restore hands back copies), the save path selects no "
    "block as `a[-k:]` with k possibly 0, and session start/end of a scheduler writes session-scoped attributes only; "
    "(R3) the object dumped to the scheduler file is the calibrator's scheduler itself and every checkpoint file is "
    "rewritten on every path through save. Batch-for-batch equality of two runs is a runtime clause and is not decided."
    ' (R2f) no identity / == / membership comparison of stored repository objects whose class defines no __eq__ in classes reachable from the pickled scheduler (a restored copy is never `is` the original).'
    ' (R2g) Calibrator.__init__ changes no state of the scheduler / samplers / loss it receives (the restore passes the restored objects through it); the text path of C04-R3 is included (nothing is dropped or repaired when the history is read back).'
    " Value memos are exempt only when the key is injective in what it is made of and no reader writes into an entry; a cached function is exempt only when every receiver of the cached object merely reads it."
    " The field-plumbing rule of C04 kept to the history and the two counters is included. A __getstate__ that only leaves named attributes out is read: each must be scratch, i.e. written before it is read on every path from sample()/sample_batch() (interprocedural must/may-written dataflow; a write that only some paths make is undecided)."
)
TECHNIQUE = "effect analysis (module/class/attribute writes), loop-carried-local detection on the CFG, view-aliasing of attributes, plumbing composition"

SESSION_METHODS = ("start_session", "end_session", "session")


def _session_local_readers(prog, cls) -> set[str]:
    """Methods whose whole life lies inside one session: the session methods themselves and the thread entry points they create (with callees)."""
    out = {m.qualname for k in prog.mro(cls) for n_, m in k.methods.items() if n_ in SESSION_METHODS}
    work = []
    for k in prog.mro(cls):
        for n_, m in k.methods.items():
            if n_ in SESSION_METHODS:
                for c in calls_in(m.node):
                    if (dotted(c.func) or "").split(".")[-1] == "Thread":
                        tgt = kwarg(c, "target")
                        if isinstance(tgt, ast.Attribute) and isinstance(tgt.value, ast.Name) and tgt.value.id == m.self_name:
                            t = prog.lookup_method(cls, tgt.attr)
                            if t is not None:
                                work.append(t)
    while work:
        f = work.pop()
        if f.qualname in out:
            continue
        out.add(f.qualname)
        for c in calls_in(f.node):
            for t in prog.resolve_call(f, c):
                if isinstance(t, FuncInfo) and t.cls is not None and t.cls in prog.mro(cls):
                    work.append(t)
    return out


def run(ctx: Context) -> None:
    v = CalibrateView(ctx.prog)
    ctx.analysed(v.cal)
    pl = Plumbing(ctx.prog)
    ctx.rule(r1_seed_guard, v, "R1")
    ctx.rule(r1_state_rows, pl)
    ctx.rule(r2a_global_state)
    ctx.rule(r2b_loop_carried, v)
    ctx.rule(r2c_pickle_hooks)
    ctx.rule(r2d_session_scope)
    ctx.rule(r2e_attribute_views)
    ctx.rule(r2f_identity_comparisons)
    ctx.rule(r2g_constructor_keeps_components)
    ctx.rule(c04.r2_tables, pl)
    # the resumed run continues from what was saved: every history field comes back through the persistence chain as itself (field plumbing of C04, history + counters)
    from . import c18 as _c18
    ctx.rule(_c18.restored_records_identity, ("current_batch_index", "n_sampled_params", "convergence_precision", "ensemble_size", "n_jobs", "initial_random_seed", "random_generator_state",
                                              "real_data", "parameters_bounds", "parameters_precision", "loss_function", "scheduler"))
    ctx.rule(c04.r5_picklable)
    ctx.rule(c04.r9_suffix_slices, pl)
    ctx.rule(c04.r7_restore_order, pl)
    # the history a resumed run continues from is the history that was saved: the text path reads it back exactly, dropping and repairing nothing (C04-R3)
    ctx.rule(c04.r3_text_path, pl)
    ctx.rule(c14.r4_checkpoint_on_every_exit, v, "R4")


# ---------------------------------------------------------------------------------------------- R1
def r1_seed_guard(ctx: Context, v: CalibrateView, rule: str) -> None:
    prog = ctx.prog
    g = v.g
    seeders = []
    for f in prog.all_functions(include_plot=True):
        for c in calls_in(f.node, scope_only=False):
            if any(isinstance(t, FuncInfo) and t.name == "_set_samplers_seeds" for t in prog.resolve_call(f, c)):
                seeders.append((f, c))
    ctx.floor(rule, "callers of _set_samplers_seeds", len(seeders), 1)
    for f, c in seeders:
        ctx.check(f is v.cal, f"{rule}.seed-callers", f"{f.qualname.split(':')[1]}:calls-_set_samplers_seeds", "samplers are re-seeded from calibrate() only",
                  f"{f.qualname} re-seeds the samplers: a restored or continued run would restart its random streams", f, c)
    for f, c in seeders:
        if f is not v.cal:
            continue
        for cn in node_for(g, c):
            deps = {(t, lab) for t, lab in g.control_closure(cn) if t.kind == "test"}
            ok = len(deps) == 1
            for t, lab in deps:
                e = t.ast
                is_zero = isinstance(e, ast.Compare) and len(e.ops) == 1 and isinstance(e.ops[0], ast.Eq) and is_self_attr(e.left, v.sn, "current_batch_index") \
                    and isinstance(e.comparators[0], ast.Constant) and e.comparators[0].value == 0
                is_nonzero = isinstance(e, ast.Compare) and len(e.ops) == 1 and isinstance(e.ops[0], (ast.NotEq, ast.Gt)) and is_self_attr(e.left, v.sn, "current_batch_index") \
                    and isinstance(e.comparators[0], ast.Constant) and e.comparators[0].value == 0
                ok = ok and ((is_zero and lab == "true") or (is_nonzero and lab == "false"))
            ctx.check(ok, f"{rule}.seed-guard", "Calibrator.calibrate:reseed-iff-batch-0", "samplers are re-seeded iff current_batch_index == 0 (once per calibration life)",
                      f"_set_samplers_seeds() runs under {[(src(t.ast), lab) for t, lab in deps] or 'no condition'}: a second calibrate() call or a restored run re-seeds the samplers", v.cal, c)
            ctx.check(cn not in v.loop_nodes, f"{rule}.seed-guard", "Calibrator.calibrate:reseed-outside-loop", "re-seeding happens before the batch loop",
                      "samplers are re-seeded inside the batch loop", v.cal, c)
            sess = v.nodes(v.session)
            for sn in sess:
                p = g.path_avoiding(sn, {cn}, set())
                ctx.check(p is None, f"{rule}.seed-guard", "Calibrator.calibrate:reseed-before-session", "re-seeding precedes the scheduler session",
                          "samplers are re-seeded after the session started", v.cal, c)
    # the cascade root writes the scheduler's seed from the calibrator's own seed
    sss = ctx.func("black_it.calibrator:Calibrator._set_samplers_seeds")
    st = [s for s in walk_scope(sss.node) if isinstance(s, ast.Assign) and src(s.targets[0]) == f"{sss.self_name}.scheduler.random_state"]
    ctx.check(len(st) == 1 and src(st[0].value) == f"{sss.self_name}.random_state", f"{rule}.seed-root", "Calibrator._set_samplers_seeds:scheduler-seed",
              "the scheduler is seeded with the calibrator's seed", f"scheduler seed set by `{src(st[0]) if st else '?'}`", sss, st[0] if st else sss.node)
    # nobody else in the calibrator re-seeds scheduler / samplers
    for f, stmt, recv, value in attr_store_sites(prog, "random_state"):
        if f.cls is not None and f.cls.name == "Calibrator" and f.name not in ("_set_samplers_seeds", "__init__"):
            ctx.fail(f"{rule}.seed-callers", f"Calibrator.{f.name}:random_state-store", f"`{src(stmt)[:80]}` re-seeds a component outside the batch-0 cascade", f, stmt)
        if f.cls is not None and f.cls.name == "Calibrator" and f.name == "__init__" and not (isinstance(recv, ast.Name) and recv.id == f.self_name):
            ctx.fail(f"{rule}.seed-callers", "Calibrator.__init__:component-seed", f"`{src(stmt)[:80]}`: the constructor re-seeds a component (restore calls the constructor)", f, stmt)


def r1_state_rows(ctx: Context, pl: Plumbing) -> None:
    rows = c04.compose(ctx, pl)
    want = {"current_batch_index": "current_batch_index", "random_generator_state": "random_generator.bit_generator.state", "scheduler": "scheduler"}
    ctor_paths = pl.ctor_paths()
    for r in rows:
        if r["save_param"] not in want:
            continue
        p = r["save_param"]
        src_ok = r["source"] == want[p]
        uses = [c04.strip_copy_via(u, r.get("local") or "") for u in (r["sink"] or [])]
        sink_ok = any(u == f"store:{want[p]}" or (u.startswith("ctor:") and want[p] in ctor_paths.get(u[5:], set())) for u in uses)
        wrap_ok = bool(r["storage"]) and all(w in ("id",) for _, _, w in r["storage"]) and all(w == "id" for w in r.get("load_wrappers", []))
        ctx.check(src_ok and sink_ok and wrap_ok and r["load_pos"] and len(r["load_pos"]) == 1, "R1.state-capture", f"field:{p}",
                  f"calibrator.{want[p]} is saved and restored unchanged (via {r['storage']})",
                  f"calibrator.{want[p]} does not survive a checkpoint/restore cycle unchanged: source `{r['source']}`, storage {r['storage']}, restored by {uses}", pl.restore, pl.restore_unpack)
    # the dumped object is the scheduler parameter itself (not a copy of its samplers / a fresh scheduler)
    st = pl.save_storage().get("scheduler", [])
    ctx.check(len(st) == 1 and st[0].kind == "pickle" and st[0].wrapper == "id", "R3.scheduler-whole", "save_calibrator_state:scheduler-dump",
              "the scheduler (with samplers, generators, cursors, swarm state) is pickled whole", f"scheduler stored as {[(s.kind, s.key, s.wrapper) for s in st]}", pl.save, pl.save.node)


# ---------------------------------------------------------------------------------------------- R2
STATEFUL_PREFIXES = ("black_it.samplers", "black_it.schedulers", "black_it.calibrator", "black_it.loss_functions", "black_it.utils", "black_it.search_space")
MUTATING = {"append", "extend", "insert", "pop", "remove", "clear", "update", "setdefault", "popitem", "add", "discard", "sort", "__setitem__"}


def _is_value_memo(prog, f, name: str) -> bool:
    """Every store into the module-level dict `name` (anywhere in f's module) is a value-memo store, and there is at least one."""
    from ..util import is_value_memo_store
    stores = []
    for g in prog.all_functions():
        if g.module is not f.module:
            continue
        for x in walk_scope(g.node):
            if isinstance(x, ast.Assign) and any(isinstance(t, ast.Subscript) and isinstance(t.value, ast.Name) and t.value.id == name for t in x.targets):
                stores.append((g, x))
            elif isinstance(x, (ast.AugAssign, ast.AnnAssign)) and isinstance(x.target, ast.Subscript) and isinstance(x.target.value, ast.Name) and x.target.value.id == name:
                return False
            elif isinstance(x, ast.Call) and isinstance(x.func, ast.Attribute) and isinstance(x.func.value, ast.Name) and x.func.value.id == name \
                    and x.func.attr in ("update", "setdefault", "__setitem__"):
                return False
    return bool(stores) and all(is_value_memo_store(prog, g, x, name) for g, x in stores)


def r2a_global_state(ctx: Context) -> None:
    prog = ctx.prog
    n = 0
    for f in prog.all_functions():
        if not f.module.name.startswith(STATEFUL_PREFIXES):
            continue
        n += 1
        consts = prog.module_consts.get(f.module.name, {})
        local_names = set(f.params) | {x.id for x in walk_scope(f.node) if isinstance(x, ast.Name) and isinstance(x.ctx, ast.Store)}
        for x in walk_scope(f.node):
            if isinstance(x, (ast.Global, ast.Nonlocal)) and isinstance(x, ast.Global):
                ctx.fail("R2.global-state", f"{f.qualname.split(':')[1]}:global:{','.join(x.names)}", f"`{src(x)}`: module-level state survives in the process but is not in the checkpoint", f, x)
            targets: list[ast.expr] = []
            if isinstance(x, ast.Assign):
                targets = list(x.targets)
            elif isinstance(x, (ast.AugAssign, ast.AnnAssign)):
                targets = [x.target]
            for t in targets:
                base = t
                sub = False
                while isinstance(base, ast.Subscript):
                    base = base.value
                    sub = True
                if isinstance(base, ast.Name) and sub and base.id in consts and base.id not in local_names:
                    from ..util import is_value_memo_store
                    if is_value_memo_store(prog, f, x, base.id):
                        ctx.ok("R2.global-state", f"{f.qualname.split(':')[1]}:value-memo:{base.id}", f"`{base.id}` is a memo keyed by value: each entry is a function of its key, a restored run recomputes the same entries")
                        continue
                    ctx.fail("R2.global-state", f"{f.qualname.split(':')[1]}:module-store:{base.id}", f"`{src(x)[:80]}` writes module-level `{base.id}`: state outside the checkpoint", f, x)
                if isinstance(base, ast.Attribute) and isinstance(base.value, ast.Name):
                    c = prog.class_of_name(f.module, base.value.id)
                    if c is not None or (base.value.id == "cls" and f.is_classmethod):
                        ctx.fail("R2.global-state", f"{f.qualname.split(':')[1]}:class-store:{src(base)}", f"`{src(x)[:80]}` writes a class attribute: shared by all instances, not restored per object", f, x)
            if isinstance(x, ast.Call) and isinstance(x.func, ast.Attribute) and x.func.attr in MUTATING:
                base = x.func.value
                while isinstance(base, ast.Subscript):
                    base = base.value
                if isinstance(base, ast.Name) and base.id in consts and base.id not in local_names:
                    if x.func.attr in ("clear", "pop", "popitem") and _is_value_memo(prog, f, base.id):
                        ctx.ok("R2.global-state", f"{f.qualname.split(':')[1]}:memo-eviction:{base.id}", f"`{src(x)[:60]}` only drops entries of a memo keyed by value")
                        continue
                    ctx.fail("R2.global-state", f"{f.qualname.split(':')[1]}:module-mutation:{base.id}", f"`{src(x)[:80]}` mutates module-level `{base.id}`", f, x)
                if isinstance(base, ast.Attribute) and is_self_attr(base, f.self_name) and f.cls is not None:
                    # instance attribute or a mutable class-level default shared between instances?
                    inst = any(mangle(k.name, base.attr) in prog.attr_stores(k, inherited=False) for k in prog.mro(f.cls))
                    shared = any(base.attr in k.class_vars and isinstance(k.class_vars[base.attr], (ast.List, ast.Dict, ast.Set, ast.Call)) for k in prog.mro(f.cls))
                    if shared and not inst:
                        ctx.fail("R2.global-state", f"{f.qualname.split(':')[1]}:class-default:{base.attr}", f"`{src(x)[:80]}` mutates a mutable class-level default shared by all instances", f, x)
        for x in walk_scope(f.node):
            if not isinstance(x, ast.Call):
                continue
            # a method call on a module-level instance of a repository class whose method writes its own attributes: the module keeps that object between calls
            if isinstance(x.func, ast.Attribute) and isinstance(x.func.value, ast.Name) and x.func.value.id in consts and x.func.value.id not in local_names \
                    and isinstance(consts[x.func.value.id], ast.Call):
                kcls = prog.class_of_name(f.module, dotted(consts[x.func.value.id].func) or "")
                meth = prog.lookup_method(kcls, x.func.attr) if kcls is not None else None
                touches_self = meth is not None and meth.self_name and any(isinstance(y, ast.Attribute) and isinstance(y.value, ast.Name) and y.value.id == meth.self_name for y in ast.walk(meth.node))
                writes = meth is not None and any((isinstance(y, (ast.Attribute, ast.Subscript)) and isinstance(y.ctx, ast.Store)) or isinstance(y, ast.AugAssign)
                                                  or (isinstance(y, ast.Call) and ((dotted(y.func) or "").endswith(("copyto", "put", "place")) or any(k.arg == "out" for k in y.keywords)))
                                                  for y in ast.walk(meth.node))
                if touches_self and writes:
                    # a reusable workspace is harmless as long as nothing of it escapes (results copied out, contents overwritten before they are read): whether that is
                    # so needs an escape analysis of the buffers, which this rule does not have - undecided, not a finding
                    raise AnalysisError(f"{f.loc(x)}: `{src(x)[:60]}` works on the module-level object `{x.func.value.id}`, which `{x.func.attr}` writes to; whether any of its "
                                        "buffers reaches a caller (state shared between calls) is not decided")
            # `out=self.<attr>` where <attr> is a class-level array never rebound per instance: every instance writes into the same array
            for k_ in x.keywords:
                if k_.arg == "out" and f.cls is not None and is_self_attr(k_.value, f.self_name):
                    a_ = k_.value.attr  # type: ignore[union-attr]
                    inst = any(mangle(kk.name, a_) in prog.attr_stores(kk, inherited=False) for kk in prog.mro(f.cls))
                    shared = any(a_ in kk.class_vars for kk in prog.mro(f.cls))
                    if shared and not inst:
                        ctx.fail("R2.global-state", f"{f.qualname.split(':')[1]}:class-default:{a_}", f"`{src(x)[:70]}` writes into the class-level array `{a_}`, which all instances share: "
                                 "what one instance draws or computes is overwritten by the next instance that refills it", f, x)
        for d in f.node.decorator_list:
            nm = (dotted(d) or (dotted(d.func) if isinstance(d, ast.Call) else "") or "").split(".")[-1]
            if nm in ("lru_cache", "cache") and f.module.name.startswith(STATEFUL_PREFIXES):
                from ..util import is_pure_cached_function
                if is_pure_cached_function(prog, f):
                    ctx.ok("R2.global-state", f"{f.qualname.split(':')[1]}:pure-cache:{nm}", f"@{nm} on a closed function whose result no caller writes to: not observable")
                    continue
                if not f.module.name.startswith(("black_it.samplers", "black_it.schedulers", "black_it.calibrator")):
                    raise AnalysisError(f"{f.loc(d)}: @{nm} on {f.qualname.split(':')[1]} hands out an object that is written to later (a cached workspace); whether anything of it "
                                        "reaches a caller is not decided")
                ctx.fail("R2.global-state", f"{f.qualname.split(':')[1]}:decorator:{nm}", f"@{nm} keeps process-wide state that a restored run does not have", f, d)
    ctx.floor("R2", "functions scanned for module/class-level writes", n, 120)
    ctx.ok("R2.global-state", "package:scanned", f"{n} functions scanned: no write to module-level or class-level state")


def r2b_loop_carried(ctx: Context, v: CalibrateView) -> None:
    g, head = v.g, v.head
    body_start = [t for t, lab in head.succ if lab == "loop"][0]
    assigned: dict[str, set] = {}
    for n in v.loop_nodes:
        a = n.ast
        names: list[str] = []
        if n.kind == "for" and n is not head:
            names = [x.id for x in ast.walk(n.stmt.target) if isinstance(x, ast.Name)]  # type: ignore[union-attr]
        elif isinstance(a, ast.Assign):
            names = [x.id for t in a.targets for x in ast.walk(t) if isinstance(x, ast.Name) and isinstance(x.ctx, ast.Store)]
        elif isinstance(a, (ast.AnnAssign, ast.AugAssign)) and isinstance(a.target, ast.Name):
            names = [a.target.id]
        for nm in names:
            assigned.setdefault(nm, set()).add(n)
    carried = []
    for nm, defs in sorted(assigned.items()):
        # a use of nm reachable from the start of an iteration without passing one of its in-loop definitions
        uses = [n for n in v.loop_nodes if n.ast is not None and n not in defs and any(isinstance(x, ast.Name) and x.id == nm and isinstance(x.ctx, ast.Load) for x in ast.walk(n.ast))]
        aug = [n for n in defs if isinstance(n.ast, ast.AugAssign) or (isinstance(n.ast, (ast.Assign, ast.AnnAssign)) and n.ast.value is not None
                                                                         and any(isinstance(x, ast.Name) and x.id == nm and isinstance(x.ctx, ast.Load) for x in ast.walk(n.ast.value)))]
        for u in [*uses, *aug]:
            if u is body_start and u in aug:
                carried.append((nm, u, [u]))
                break
            p = g.path_avoiding(head, {u}, defs - ({u} if u in aug else set()), labels={"loop", "next", "true", "false"})
            if p is not None:
                carried.append((nm, u, p))
                break
    for nm, u, p in carried:
        ctx.fail("R2.loop-carried", f"Calibrator.calibrate:local:{nm}", f"local `{nm}` carries a value from one batch to the next (read at `{src(u.ast)[:60]}` before being set in that iteration): "
                 "it is not part of the checkpoint, so a resumed run continues differently", v.cal, u.ast, path_text(v.cal, p))
    if not carried:
        ctx.ok("R2.loop-carried", "Calibrator.calibrate:locals", f"{len(assigned)} locals assigned in the batch loop, none is live across iterations")


def _blanked_by_getstate(prog, c, m) -> set[str] | None:
    """Attribute names a `__getstate__` of the shape `state = dict(self.__dict__) / self.__dict__.copy(); <blank or drop the names of X>; return state` leaves out,
    X being a literal tuple of names or a class-level tuple (`self._scratch_attributes`, united over the hierarchy: subclasses extend it).  None: not that shape."""
    body = [st for st in m.node.body if not (isinstance(st, ast.Expr) and isinstance(st.value, ast.Constant))]
    if len(body) < 2 or not isinstance(body[0], ast.Assign) or not isinstance(body[0].targets[0], ast.Name) or not isinstance(body[-1], ast.Return) or src(body[-1].value) != body[0].targets[0].id:
        return None
    st_name = body[0].targets[0].id
    if src(body[0].value) not in (f"dict({m.self_name}.__dict__)", f"{m.self_name}.__dict__.copy()", f"{{**{m.self_name}.__dict__}}"):
        return None

    def names_of(e: ast.expr) -> set[str] | None:
        if isinstance(e, (ast.Tuple, ast.List, ast.Set)) and all(isinstance(x, ast.Constant) and isinstance(x.value, str) for x in e.elts):
            return {x.value for x in e.elts}
        if isinstance(e, ast.Attribute) and isinstance(e.value, ast.Name) and e.value.id == m.self_name:
            out: set[str] = set()
            found = False
            for k in [*prog.mro(c), *prog.subclasses(c, strict=True)]:
                v = k.class_vars.get(e.attr)
                if v is not None:
                    got = names_of(v)
                    if got is None:
                        return None
                    out |= got
                    found = True
            return out if found else None
        if isinstance(e, ast.BinOp) and isinstance(e.op, ast.Add):
            a, b = names_of(e.left), names_of(e.right)
            return None if a is None or b is None else a | b
        if isinstance(e, ast.Starred):
            return names_of(e.value)
        if isinstance(e, ast.Tuple):
            parts = [names_of(x) if isinstance(x, ast.Starred) else ({x.value} if isinstance(x, ast.Constant) and isinstance(x.value, str) else None) for x in e.elts]
            return None if any(p is None for p in parts) else set().union(*parts)
        return None
    dropped: set[str] = set()
    for st in body[1:-1]:
        got = None
        if isinstance(st, ast.Expr) and isinstance(st.value, ast.Call) and src(st.value.func) == f"{st_name}.update" and len(st.value.args) == 1 and isinstance(st.value.args[0], ast.Call) \
                and src(st.value.args[0].func) == "dict.fromkeys" and 1 <= len(st.value.args[0].args) <= 2:
            got = names_of(st.value.args[0].args[0])
        elif isinstance(st, ast.For) and isinstance(st.target, ast.Name) and len(st.body) == 1 and not st.orelse:
            b0 = st.body[0]
            k = st.target.id
            if (isinstance(b0, ast.Assign) and src(b0.targets[0]) == f"{st_name}[{k}]") or (isinstance(b0, ast.Delete) and src(b0.targets[0]) == f"{st_name}[{k}]") \
                    or (isinstance(b0, ast.Expr) and isinstance(b0.value, ast.Call) and src(b0.value.func) == f"{st_name}.pop" and b0.value.args and src(b0.value.args[0]) == k):
                got = names_of(st.iter)
        # one attribute at a time: `state.pop("x", None)`, `del state["x"]`, `state["x"] = None`
        if got is None and isinstance(st, ast.Expr) and isinstance(st.value, ast.Call) and src(st.value.func) == f"{st_name}.pop" and st.value.args \
                and isinstance(st.value.args[0], ast.Constant) and isinstance(st.value.args[0].value, str):
            got = {st.value.args[0].value}
        if got is None and isinstance(st, ast.Delete) and all(isinstance(t, ast.Subscript) and src(t.value) == st_name and isinstance(t.slice, ast.Constant) and isinstance(t.slice.value, str)
                                                              for t in st.targets):
            got = {t.slice.value for t in st.targets}
        if got is None and isinstance(st, ast.Assign) and len(st.targets) == 1 and isinstance(st.targets[0], ast.Subscript) and src(st.targets[0].value) == st_name \
                and isinstance(st.targets[0].slice, ast.Constant) and isinstance(st.targets[0].slice.value, str):
            got = {st.targets[0].slice.value}
        if got is None:
            return None
        dropped |= got
    return dropped


def _read_before_write(prog, k, mname: str, attrs: set[str], memo: dict, active: set) -> tuple:
    """Summary of method `mname` as resolved on class `k`: which of `attrs` it may read (itself or through `self.m()` calls) before they were written on the
    same path, and which it certainly writes on every path to its normal exit.  Forward must-written dataflow over the statement CFG; callee summaries are applied
    at call nodes (calls first, then the node's own reads, then its stores)."""
    f = next((kk.methods[mname] for kk in prog.mro(k) if mname in kk.methods), None)
    key = (k.name, mname)
    if key in memo:
        return memo[key]
    if f is None or f.self_name is None or key in active:
        return {}, set(), set()
    active.add(key)
    g = CFG(f.node)
    sn = f.self_name
    reads: dict[str, tuple] = {}
    IN: dict = {g.entry: (frozenset(), frozenset())}
    work = [g.entry]
    exit_states = []
    seen_out: dict = {}
    while work:
        nd = work.pop()
        st = set(IN[nd][0])
        may = set(IN[nd][1])
        a = nd.ast
        if a is not None and nd.kind not in ("join",):
            parts = [a.iter] if nd.kind == "for" and isinstance(a, ast.For) else [a.test] if nd.kind == "test" and hasattr(a, "test") and not isinstance(a, ast.expr) else [a]
            if isinstance(a, (ast.With,)):
                parts = [it.context_expr for it in a.items]
            for part in parts:
                calls = [x for x in ast.walk(part) if isinstance(x, ast.Call) and isinstance(x.func, ast.Attribute) and isinstance(x.func.value, ast.Name) and x.func.value.id == sn]
                for c_ in sorted(calls, key=lambda x: (x.lineno, x.col_offset)):
                    r2, w2, m2 = _read_before_write(prog, k, c_.func.attr, attrs, memo, active)
                    for at, wh in r2.items():
                        if at not in st:
                            reads.setdefault(at, (*wh[:2], wh[2] and at not in may))
                            if wh[2] and at not in may:
                                reads[at] = (*wh[:2], True)
                    st |= w2
                    may |= m2
                for x in ast.walk(part):
                    if isinstance(x, ast.Attribute) and isinstance(x.value, ast.Name) and x.value.id == sn and x.attr in attrs and isinstance(x.ctx, ast.Load) and x.attr not in st:
                        definite = x.attr not in may
                        if x.attr not in reads or (definite and not reads[x.attr][2]):
                            reads[x.attr] = (f, x, definite)
                for x in ast.walk(part):
                    if isinstance(x, ast.Attribute) and isinstance(x.value, ast.Name) and x.value.id == sn and x.attr in attrs and isinstance(x.ctx, ast.Store):
                        st.add(x.attr)
                        may.add(x.attr)
        out = (frozenset(st), frozenset(may))
        if nd.kind in ("exit", "return"):
            exit_states.append(out)
        for t, lab in nd.succ:
            if lab in ("exc",):
                continue
            new = out if t not in IN else (IN[t][0] & out[0], IN[t][1] | out[1])
            if t not in IN or new != IN[t]:
                IN[t] = new
                work.append(t)
    must = set(attrs)
    mayw: set[str] = set()
    for es in exit_states:
        must &= es[0]
        mayw |= es[1]
    if not exit_states:
        must = set()
    active.discard(key)
    memo[key] = (reads, must, mayw)
    return memo[key]


def _carried_between_calls(prog, c, attr: str) -> tuple | None:
    """Entering the sampler through its public per-batch entry points (`sample`, `sample_batch`, and for other classes every public method), can `self.<attr>` be
    read before it was written in that same call?  Then its value is carried from one call to the next, and leaving it out of the pickle changes a restored run."""
    for k in [c, *prog.subclasses(c, strict=True)]:
        entries = [m for kk in prog.mro(k) for m in kk.methods if not m.startswith("_")]
        if "sample_batch" in entries:
            entries = ["sample", "sample_batch"]     # how the scheduler / calibrator drive a sampler (fit / predict are steps of sample_batch)
        memo: dict = {}
        for e in sorted(set(entries)):
            r, _w, _m = _read_before_write(prog, k, e, {attr}, memo, set())
            if attr in r:
                if not r[attr][2]:
                    raise AnalysisError(f"{r[attr][0].loc(r[attr][1])}: `{attr}` is read by {r[attr][0].qualname.split(':')[1]} after a write that only some paths make; whether it is scratch "
                                        "depends on how the branch conditions are correlated, which is not decided")
                return r[attr]
    return None


def r2c_pickle_hooks(ctx: Context) -> None:
    prog = ctx.prog
    classes = c04.reachable_classes(prog, [prog.find_class("BaseScheduler")])
    for c in classes:
        for hook in ("__getstate__", "__setstate__", "__reduce__", "__reduce_ex__", "__deepcopy__", "__copy__", "__getnewargs__"):
            m = c.methods.get(hook)
            if m is not None and hook == "__getstate__" and "__setstate__" not in c.methods:
                # a hook that only leaves named attributes out: fine when every one of them is scratch (written before it is read in every method that reads it)
                blanked = _blanked_by_getstate(prog, c, m)
                if blanked is None:
                    raise AnalysisError(f"{m.loc(m.node)}: {c.name}.__getstate__ customises pickling in a way that cannot be read (which attributes leave the checkpoint?)")
                for a in sorted(blanked):
                    hit = _carried_between_calls(prog, c, a)
                    ctx.check(hit is None, "R2.pickle-hooks", f"{c.name}.__getstate__:{a}", f"`{a}` is left out of the pickle and is scratch: every method writes it before reading it",
                              f"{c.name}.__getstate__ leaves `{a}` out of the checkpoint, but {hit[0].qualname.split(':')[1] if hit else '?'} can read it before writing it: "
                              "a restored run continues without state the uninterrupted run has", m, m.node)
                continue
            ctx.check(m is None, "R2.pickle-hooks", f"{c.name}.{hook}", f"{c.name} does not customise {hook}", f"{c.name}.{hook} customises pickling: state may be dropped from the checkpoint", m, m.node if m else None)
        slots = c.class_vars.get("__slots__")
        if slots is not None:
            ctx.fail("R2.pickle-hooks", f"{c.name}.__slots__", f"{c.name} declares __slots__: attributes outside it are silently not part of the pickled state", None, None)
    ctx.tables["C05.R2.pickled_classes"] = sorted(c.name for c in classes)


def r2d_session_scope(ctx: Context) -> None:
    prog = ctx.prog
    base = prog.find_class("BaseScheduler")
    for c in prog.subclasses(base):
        for name in ("start_session", "end_session", "session"):
            m = c.methods.get(name)
            if m is None:
                continue
            ctx.analysed(m)
            for x in walk_scope(m.node):
                targets = []
                if isinstance(x, ast.Assign):
                    targets = x.targets
                elif isinstance(x, (ast.AugAssign, ast.AnnAssign)):
                    targets = [x.target]
                for t in targets:
                    for el in ([t] if not isinstance(t, (ast.Tuple, ast.List)) else t.elts):
                        if is_self_attr(el, m.self_name):
                            # session-scoped = read only by code whose life lies inside one session (session methods, the thread they start);
                            # an attribute that get_next_sampler / update / ... also read carries state across batches and must survive a session boundary
                            local = _session_local_readers(prog, c)
                            readers = sorted({f.qualname.split(":")[1] for k in prog.mro(c) for f in k.methods.values() if f.qualname not in local and f.name != "__init__"
                                              for a in ast.walk(f.node) if isinstance(a, ast.Attribute) and isinstance(a.ctx, ast.Load) and a.attr == el.attr  # type: ignore[union-attr]
                                              and isinstance(a.value, ast.Name) and a.value.id == f.self_name})
                            ctx.check(not readers, "R2.session-scope", f"{c.name}.{name}:{el.attr}", f"{c.name}.{name} writes {el.attr}, which only session-local code reads",  # type: ignore[union-attr]
                                      f"`{src(x)[:80]}` in {c.name}.{name}: state that {', '.join(readers[:3])} read(s) across batches is reset at a session boundary, "
                                      "so batches split over several calibrate() calls are scheduled differently from one call", m, x)


def _is_view_of_attr(f: FuncInfo, e: ast.expr, depth: int = 0) -> str | None:
    """If `e` is a numpy view (not the object itself) of some `self.<attr>`, return that attribute."""
    if depth > 4:
        return None
    if isinstance(e, ast.Subscript):
        inner = e.value
        if is_self_attr(inner, f.self_name):
            # basic indexing creates a view; an index that is certainly an array (fancy) copies
            sl = e.slice
            basic = isinstance(sl, (ast.Slice, ast.Constant)) or (isinstance(sl, ast.Tuple) and all(isinstance(x, (ast.Slice, ast.Constant)) for x in sl.elts)) or isinstance(sl, ast.Constant)
            return inner.attr if basic else None  # type: ignore[union-attr]
        return _is_view_of_attr(f, inner, depth + 1)
    if isinstance(e, ast.Attribute) and e.attr in VIEW_ATTRS and is_self_attr(e.value, f.self_name):
        return e.value.attr  # type: ignore[union-attr]
    if isinstance(e, ast.Call):
        if isinstance(e.func, ast.Attribute) and e.func.attr in (VIEW_METHODS - {"values", "items", "__getitem__"}) and is_self_attr(e.func.value, f.self_name):
            return e.func.value.attr  # type: ignore[union-attr]
        fn = dotted(e.func) or ""
        q = fn.replace("np.", "numpy.")
        if q in VIEW_FUNCS and q.startswith("numpy.") and e.args and is_self_attr(e.args[0], f.self_name):
            return e.args[0].attr  # type: ignore[union-attr]
        if fn.split(".")[-1] == "cast" and len(e.args) == 2:
            return _is_view_of_attr(f, e.args[1], depth + 1)
    return None


def r2e_attribute_views(ctx: Context) -> None:
    prog = ctx.prog
    classes = c04.reachable_classes(prog, [prog.find_class("BaseScheduler")])
    n = 0
    for c in classes:
        for f in prog.methods_of(c):
            for x in walk_scope(f.node):
                if isinstance(x, (ast.Assign, ast.AnnAssign)):
                    tgt = x.targets[0] if isinstance(x, ast.Assign) else x.target
                    val = x.value
                    if val is None or not is_self_attr(tgt, f.self_name):
                        continue
                    n += 1
                    src_attr = _is_view_of_attr(f, val)
                    if src_attr is not None and src_attr != tgt.attr:  # type: ignore[union-attr]
                        ctx.fail("R2.attribute-views", f"{c.name}.{f.name}:{tgt.attr}<-view({src_attr})",  # type: ignore[union-attr]
                                 f"`{src(x)[:90]}`: {tgt.attr} is a numpy view of {src_attr}; pickling keeps object identity but not view sharing, "  # type: ignore[union-attr]
                                 "so after a restore writes through one no longer reach the other and the resumed run diverges", f, x)
    ctx.floor("R2", "attribute stores in pickled classes", n, 60)
    ctx.ok("R2.attribute-views", "pickled-classes:views", f"{n} attribute stores in {len(classes)} pickled classes: none makes an attribute a view of another")


# ---------------------------------------------------------------------------------------------- R2f
def _has_value_equality(prog, c: ClassInfo) -> bool:
    for k in prog.mro(c):
        if "__eq__" in k.methods:
            return True
        # members of an Enum are singletons that unpickle to the very same member: identity *is* value equality for them
        if any((dotted(b) or "").split(".")[-1] in ("Enum", "IntEnum", "StrEnum", "Flag", "IntFlag") for b in k.node.bases):
            return True
        for d in k.node.decorator_list:
            if (dotted(d.func if isinstance(d, ast.Call) else d) or "").split(".")[-1] == "dataclass":
                return True
    return False


def r2f_identity_comparisons(ctx: Context) -> None:
    """A restore hands the calibrator *copies* of what was pickled: a branch that compares a stored object with another one by
    identity (`is`, or `==` / `!=` / `in` on a class that defines no `__eq__`) takes a different side after a restore."""
    prog = ctx.prog
    classes = c04.reachable_classes(prog, [prog.find_class("BaseScheduler")])
    cal = prog.find_class("Calibrator")
    if cal not in classes:
        classes = [*classes, cal]
    n = 0
    for c in classes:
        for f in prog.methods_of(c):
            if f.self_name is None:
                continue
            for x in ast.walk(f.node):
                if not isinstance(x, ast.Compare):
                    continue
                operands = [x.left, *x.comparators]
                for op, a, b in zip(x.ops, operands, operands[1:]):
                    if not isinstance(op, (ast.Eq, ast.NotEq, ast.Is, ast.IsNot, ast.In, ast.NotIn)):
                        continue
                    if any(isinstance(e, ast.Constant) for e in (a, b)):
                        continue
                    n += 1
                    stored = [e for e in (a, b) if any(is_self_attr(y, f.self_name) for y in ast.walk(e))]
                    if not stored:
                        continue
                    for e in (a, b):
                        k = prog.expr_class(f, e)
                        if k is None or _has_value_equality(prog, k):
                            continue
                        ctx.fail("R2.identity-comparison", f"{c.name}.{f.name}:{k.name}", f"`{src(x)[:80]}` compares a stored object with a {k.name} by identity "
                                 f"({k.name} defines no __eq__): after a restore the stored object is an unpickled copy, so the branch is taken differently and the resumed run diverges", f, x)
                        break
    ctx.ok("R2.identity-comparison", "pickled-classes:comparisons", f"{n} equality / identity / membership comparisons in {len(classes)} pickled classes: none compares a stored repository object by identity")


def _writes_own_state(prog, f: FuncInfo, depth: int = 0, seen: frozenset = frozenset()) -> ast.AST | None:
    """A statement by which method `f` (or a method it calls on self, two levels) stores into an attribute of its own object; None if it stores nothing."""
    if f.qualname in seen or depth > 2 or f.self_name is None:
        return None
    for x in walk_scope(f.node):
        tg = None
        if isinstance(x, ast.Assign):
            tg = x.targets[0]
        elif isinstance(x, (ast.AugAssign, ast.AnnAssign)):
            tg = x.target
        base = tg
        while isinstance(base, ast.Subscript):
            base = base.value
        if isinstance(base, ast.Attribute) and isinstance(base.value, ast.Name) and base.value.id == f.self_name:
            return x
    for c in calls_in(f.node):
        if isinstance(c.func, ast.Attribute) and isinstance(c.func.value, ast.Name) and c.func.value.id == f.self_name:
            for t in prog.resolve_call(f, c):
                if isinstance(t, FuncInfo):
                    w = _writes_own_state(prog, t, depth + 1, seen | {f.qualname})
                    if w is not None:
                        return w
    return None


def r2g_constructor_keeps_components(ctx: Context) -> None:
    """restore_from_checkpoint hands the *restored* scheduler (with its samplers) and loss to the Calibrator constructor: whatever the constructor does to
    the objects it receives is done to the restored state too.  The constructor may keep them, read them and seed-independent bookkeeping about them, but
    it calls no method on them that changes their state (a `reset()`, a warm-up, a re-initialisation)."""
    prog = ctx.prog
    init = ctx.func("black_it.calibrator:Calibrator.__init__")
    comp_params = {p for p in init.params if p in ("scheduler", "samplers", "loss_function")}
    comp_attrs = {"scheduler", "loss_function"}
    # locals bound from components (loop variables over scheduler.samplers, aliases)
    tainted = set(comp_params)
    changed = True
    while changed:
        changed = False
        for x in ast.walk(init.node):
            src_e, tgt = None, None
            if isinstance(x, ast.Assign) and isinstance(x.targets[0], ast.Name):
                src_e, tgt = x.value, x.targets[0]
            elif isinstance(x, (ast.For, ast.comprehension)) and isinstance(x.target, ast.Name):
                src_e, tgt = x.iter, x.target
            if src_e is None or tgt.id in tainted:
                continue
            roots = {y.id for y in ast.walk(src_e) if isinstance(y, ast.Name)} | {y.attr for y in ast.walk(src_e) if isinstance(y, ast.Attribute) and isinstance(y.value, ast.Name) and y.value.id == init.self_name}
            if roots & (tainted | comp_attrs) and not isinstance(src_e, ast.Call) or (isinstance(src_e, ast.Call) and isinstance(x, (ast.For, ast.comprehension)) and roots & (tainted | comp_attrs)):
                tainted.add(tgt.id)
                changed = True
    n = 0
    for c in calls_in(init.node, scope_only=False):
        if not isinstance(c.func, ast.Attribute):
            continue
        recv = c.func.value
        root = recv
        while isinstance(root, (ast.Attribute, ast.Subscript)):
            root = root.value
        on_component = (isinstance(root, ast.Name) and root.id in tainted) or \
            (isinstance(recv, ast.Attribute) and any(isinstance(y, ast.Attribute) and isinstance(y.value, ast.Name) and y.value.id == init.self_name and y.attr in comp_attrs for y in ast.walk(recv)))
        if not on_component:
            continue
        n += 1
        targets = [t for t in prog.resolve_call(init, c) if isinstance(t, FuncInfo)]
        if not targets:
            # receiver of unknown static type (a loop variable over the line-up): every implementation of that name in the component hierarchies
            for bname in ("BaseSampler", "BaseScheduler", "BaseLoss"):
                for k in prog.subclasses(prog.find_class(bname)):
                    m_ = k.methods.get(c.func.attr)
                    if m_ is not None:
                        targets.append(m_)
        for t in targets:
            if isinstance(t, FuncInfo):
                w = _writes_own_state(prog, t)
                if w is not None:
                    ctx.fail("R2.constructor-keeps-components", f"Calibrator.__init__:{' '.join(src(c).split())[:50]}",
                             f"the constructor calls `{' '.join(src(c).split())[:60]}`, and {t.qualname.split(':')[1]} changes the object's state (`{src(w)[:50]}`): restore_from_checkpoint goes "
                             "through this constructor with the restored scheduler / samplers / loss, so the restored internal state is overwritten and the resumed run diverges", init, c)
                    break
    ctx.ok("R2.constructor-keeps-components", "Calibrator.__init__:scanned", f"{n} method call(s) on the scheduler / samplers / loss in the constructor: none changes their state")
