"""C06 - an interrupted checkpoint save is never restored as a silent hybrid (protocol-level clauses)."""
from __future__ import annotations

import ast
import re

from ..cfg import CFG
from ..errors import AnalysisError
from ..model import FuncInfo, dotted, src, walk_scope
from ..persist import JP, Plumbing
from ..report import Context
from ..util import calls_in, kwarg, node_for, path_text
from .c04 import SQL, _sql_text

LEVEL_TEXT = (
    "Static analysis of the two persistence back-ends (no execution): (R1) the ordered file effects of the JSON/CSV/HDF5 "
    "save (helpers inlined) are compared with the commit protocols the loader could rely on - atomic publication "
    "(temporaries + rename / a commit marker written last and verified first) or cross-file validation in load/restore "
    "(a comparison between values originating in different files that raises); without one, every window between two "
    "consecutive file writes is a state in which a crash leaves a mixture that restore accepts, and is reported keyed by "
    "the file pair, so a re-ordering produces new keys - and so is one file written in two steps on one path; (R2) SQLite "
    "transaction discipline: the connection is not in autocommit mode, no PRAGMA switches off the rollback journal or "
    "synchronous writes, no destructive SQL reaches the auto-committing executescript, DELETE and INSERT are executed in "
    "that order inside the transaction that commit() closes, every exceptional path reaches rollback and every exit "
    "close; (R3) no handler on a load path swallows an exception. Byte-level truncation inside one file is not decided."
    ' Per-file replacement (temp + os.replace of every file) without a protocol over the folder is reported as what it is: it turns a loud failure into a silent hybrid.'
    " Reader options under which a file cut short parses as valid smaller data (read_csv names=, on_bad_lines other than 'error') are findings of the loud-load rule."
    " The append-mode rule of C04 is included (a table extended in place is half old, half new after a crash). `with <sqlite3 connection>:` is read as the transaction block it is; DROP TABLE + CREATE TABLE empties the table only inside an explicit BEGIN (sqlite3 opens its implicit transaction for DML only)."
)
TECHNIQUE = "ordered effect extraction (write plan) vs commit-protocol detection; CFG with exceptional edges for transaction discipline"

DESTRUCTIVE = re.compile(r"\b(DELETE|DROP|UPDATE|INSERT|REPLACE|TRUNCATE|ALTER)\b", re.I)


def run(ctx: Context) -> None:
    pl = Plumbing(ctx.prog)
    for f in (pl.save, pl.load, pl.restore):
        ctx.analysed(f)
    ctx.rule(r1_write_plan, pl)
    ctx.rule(r2_sqlite)
    ctx.rule(r3_loud_load, pl)
    # a table extended in place is half old, half new after a crash: every table is written whole (append-mode rule of C04)
    from . import c04 as _c04
    ctx.rule(_c04.r4b_append_modes, pl)


def _cross_file_checks(ctx: Context, pl: Plumbing) -> list[str]:
    """Comparisons in load/restore that involve values read from two different files and guard a raise."""
    out = []
    pl.load_sources()
    roots = pl.load_roots
    f = pl.load
    for n in ast.walk(f.node):
        if isinstance(n, ast.Compare):
            files = set()
            for x in ast.walk(n):
                if isinstance(x, ast.Name) and x.id in roots:
                    files.add(roots[x.id][1].split(":")[0])
                elif isinstance(x, ast.Name):
                    # locals derived from a root (one level)
                    for s in walk_scope(f.node):
                        if isinstance(s, ast.Assign) and any(isinstance(t, ast.Name) and t.id == x.id for t in s.targets):
                            for y in ast.walk(s.value):
                                if isinstance(y, ast.Name) and y.id in roots:
                                    files.add(roots[y.id][1].split(":")[0])
            if len(files) >= 2:
                # must guard a raise / assert
                par = getattr(n, "_parent", None)
                while par is not None and not isinstance(par, (ast.If, ast.Assert, ast.Call)):
                    par = getattr(par, "_parent", None)
                guards = isinstance(par, ast.Assert) or (isinstance(par, ast.If) and any(isinstance(x, ast.Raise) for x in ast.walk(par))) or \
                    (isinstance(par, ast.Call) and (dotted(par.func) or "").split(".")[-1] in ("_assert", "check_arg"))
                if guards:
                    out.append(f"{src(n)} ({sorted(files)})")
    # restore: comparisons between locals unpacked from different tuple positions that guard a raise
    sinks = pl.restore_sinks()
    loads = pl.load_sources()
    by_local = {s["local"]: loads[s["pos"]] for s in sinks if s["pos"] < len(loads)}

    def file_of(st) -> str:
        return {"json": "calibration_params.json", "csv": "calibration_results.csv"}.get(st.kind, st.key.split(":")[0])

    for n in ast.walk(pl.restore.node):
        if isinstance(n, ast.Compare):
            files = {file_of(by_local[x.id]) for x in ast.walk(n) if isinstance(x, ast.Name) and x.id in by_local}
            if len(files) >= 2:
                out.append(f"{src(n)} ({sorted(files)})")
    return out


def _per_file_replacement(ctx: Context, pl: Plumbing) -> None:
    """Write-to-temporary-then-rename *per file*, without a commit protocol over the whole folder, turns a loud failure into a silent hybrid: when writing
    one file fails, its previous version stays in place next to the files already replaced, and load - which cross-checks nothing - accepts the mixture
    (a truncated file, by contrast, made the restore fail)."""
    prog = ctx.prog
    save = pl.save
    hits = []
    for w in [x for x in ast.walk(save.node) if isinstance(x, ast.With)]:
        for it in w.items:
            c = it.context_expr
            if isinstance(c, ast.Call):
                for t in prog.resolve_call(save, c):
                    if isinstance(t, FuncInfo) and any((dotted(x.func) or "") in ("os.replace", "os.rename", "shutil.move") or (isinstance(x.func, ast.Attribute) and x.func.attr in ("replace", "rename"))
                                                       for x in ast.walk(t.node) if isinstance(x, ast.Call)):
                        hits.append((c, t))
    direct = [x for x in calls_in(save.node) if (dotted(x.func) or "") in ("os.replace", "os.rename", "shutil.move")]
    n_files = len([x for x in ast.walk(save.node) if isinstance(x, ast.With)])
    if hits and len(hits) >= 2 and not direct:
        c, t = hits[0]
        ctx.fail("R1.per-file-replacement", "save_calibrator_state:per-file-replacement", f"{len(hits)} checkpoint files are each written through `{t.name}` (temporary file + rename) while the save as a whole "
                 "has no commit protocol: if writing one of them fails, its OLD version stays in place beside the NEW versions of the files written before it, and load accepts the mixture silently "
                 "(before, the half-written file made the restore fail)", save, c)
    ctx.notes["per_file_replacement_helpers"] = len(hits)
    _ = n_files


def r1_write_plan(ctx: Context, pl: Plumbing) -> None:
    _per_file_replacement(ctx, pl)
    effects = pl.save_effects()
    ctx.floor("R1", "file effects of the JSON/CSV/HDF5 save", len(effects), 5)
    plan = []
    for e in effects:
        if not plan or plan[-1] != e.file:
            plan.append(e.file)
    ctx.tables["C06.R1.write_plan"] = [{"order": e.order, "file": e.file, "api": e.api, "mode": e.mode, "guard": e.cond} for e in effects]
    renames = [e for e in effects if e.api == "rename"]
    temp_writes = [e for e in effects if e.api != "rename" and re.search(r"(\.tmp|\.part|\.new|~)$", e.file or "")]
    atomic = bool(renames) and len(temp_writes) >= len([e for e in effects if e.api != "rename"]) - 1
    # commit marker: a file written last in save and read first in load
    pl.load_sources()
    reads = [e.file for e in pl.load_reads]
    marker = bool(plan) and bool(reads) and plan[-1] == reads[0] and plan[-1] not in plan[:-1] and "marker" in plan[-1].lower()
    cross = _cross_file_checks(ctx, pl)
    ctx.notes["commit_protocol"] = {"atomic_publication": atomic, "commit_marker": marker, "cross_file_checks": cross}
    if atomic or marker:
        ctx.ok("R1.commit-protocol", "save_calibrator_state:protocol", "the save publishes atomically / through a commit marker")
        return
    windows = [(a, b) for a, b in zip(plan, plan[1:])]
    ctx.sample({"write_plan": plan})
    for a, b in windows:
        # a cross-file check between exactly these two files closes the window
        closed = any(a in c and b in c for c in cross)
        ctx.check(closed, "R1.window", f"window:{a}->{b}",
                  f"a crash between writing {a} and {b} is detected on load by a cross-file check",
                  f"non-atomic save: a crash after {a} was rewritten and before {b} is rewritten leaves a folder that mixes the new {a} with the previous {b}; "
                  "load_calibrator_state / restore_from_checkpoint perform no cross-file consistency check, so the hybrid is restored silently", pl.save, pl.save.node)
    # one file written in two steps on the same path: a crash between the steps leaves a well-formed file holding the intermediate state
    g = CFG(pl.save.node)
    in_save = {id(y) for y in ast.walk(pl.save.node)}

    def cfg_nodes(e):
        n = e.node if id(e.node) in in_save else getattr(e, "node_in_save", None)
        return node_for(g, n) if n is not None and id(n) in in_save else []

    writes = [e for e in effects if e.api != "rename"]
    n_pairs = 0
    for i, a in enumerate(writes):
        for b in writes[i + 1:]:
            if a.file != b.file or a.file in (None, "?"):
                continue
            n_pairs += 1
            na, nb = cfg_nodes(a), cfg_nodes(b)
            seq = any(y in g.reachable_from(x) for x in na for y in nb if x is not y)
            closed = any(a.file in c for c in cross)
            ctx.check(not seq or closed, "R1.window", f"window:{a.file}#{a.mode}->{b.file}#{b.mode}", f"the two writes of {a.file} (mode {a.mode} / mode {b.mode}) lie on alternative paths",
                      f"{a.file} is written in two steps on one path (opened with mode '{a.mode}', closed, then opened again with mode '{b.mode}'): a crash between the steps leaves a well-formed "
                      f"{a.file} that holds only the first step, next to the other files of the new checkpoint; load accepts it silently", pl.save, b.node if id(b.node) in in_save else pl.save.node)
    ctx.notes["same_file_write_pairs"] = n_pairs
    # a file that is only written under a condition widens the window set: reported by C04-R2.every-file


def r2_sqlite(ctx: Context) -> None:
    prog = ctx.prog
    save = ctx.func(f"{SQL}:save_calibrator_state")
    load = ctx.func(f"{SQL}:load_calibrator_state")
    g = CFG(save.node, exc_edges=True)
    calls = calls_in(save.node)
    conn = [c for c in calls if (dotted(c.func) or "") == "sqlite3.connect"]
    conn_owner = {id(c): save for c in conn}
    # the connection may be opened by a helper of the same module
    opener_calls = []
    for c in calls:
        for t in prog.resolve_call(save, c):
            if isinstance(t, FuncInfo) and t.module is save.module and t is not save:
                inner = [x for x in calls_in(t.node) if (dotted(x.func) or "") == "sqlite3.connect"]
                if inner:
                    opener_calls.append(c)
                    ctx.analysed(t)
                    for x in inner:
                        conn.append(x)
                        conn_owner[id(x)] = t
    ctx.floor("R2", "sqlite3.connect reachable from the SQLite save", len(conn), 1)
    for c in conn:
        iso = kwarg(c, "isolation_level")
        auto = kwarg(c, "autocommit")
        bad = (iso is not None and isinstance(iso, ast.Constant) and iso.value is None) or (auto is not None and isinstance(auto, ast.Constant) and auto.value is True)
        owner = conn_owner[id(c)]
        ctx.check(not bad, "R2.autocommit", "sqlite3.save:connect-mode", "the connection runs DML inside an implicit transaction (not autocommit)",
                  f"`{' '.join(src(c).split())[:140]}` opens the connection in autocommit mode: the DELETE is committed on its own and rollback()/commit() do nothing - a failed save loses the previous checkpoint", owner, c)
        if iso is not None and not isinstance(iso, ast.Constant):
            raise AnalysisError(f"{owner.loc(c)}: isolation_level is not a literal; cannot decide the transaction mode")

    def sql_of(call: ast.Call) -> str:
        a = call.args[0] if call.args else None
        if isinstance(a, ast.Name):
            return _sql_text(prog, a.id)
        if isinstance(a, ast.Constant) and isinstance(a.value, str):
            return a.value
        raise AnalysisError(f"{save.loc(call)}: SQL text is not a module constant or literal")

    scripts = [c for c in calls if isinstance(c.func, ast.Attribute) and c.func.attr == "executescript"]
    execs = [c for c in calls if isinstance(c.func, ast.Attribute) and c.func.attr in ("execute", "executemany")]
    for c in scripts:
        text = re.sub(r"--[^\n]*", "", sql_of(c))
        m = DESTRUCTIVE.search(text)
        ctx.check(m is None, "R2.executescript", f"sqlite3.save:executescript:{(m.group(1).upper() if m else 'none')}",
                  "no destructive SQL goes through executescript (which commits immediately)",
                  f"`{m.group(1).upper() if m else ''}` is part of the script run by executescript(): it is committed at once, outside the INSERT's transaction - "
                  "a failing INSERT is rolled back but the previous checkpoint is already gone", save, c)
    # PRAGMAs that switch off the rollback journal / durable writes: rollback() then cannot restore the previous row and a kill mid-save corrupts the file
    prag = re.compile(r"PRAGMA\s+(?:\w+\.)?(journal_mode|synchronous|locking_mode|writable_schema|ignore_check_constraints)\s*(?:=\s*|\(\s*)['\"]?(\w+)", re.I)
    safe = {"journal_mode": {"delete", "wal", "truncate", "persist"}, "synchronous": {"normal", "full", "extra", "1", "2", "3"}, "locking_mode": {"normal", "exclusive"},
            "writable_schema": {"0", "off", "false", "no"}, "ignore_check_constraints": {"0", "off", "false", "no"}}
    n_prag = 0
    for c in scripts + execs:
        text = re.sub(r"--[^\n]*", "", sql_of(c))
        for m in prag.finditer(text):
            n_prag += 1
            name, val = m.group(1).lower(), m.group(2).lower()
            ctx.check(val in safe[name], "R2.pragma", f"sqlite3.save:pragma:{name}={val}", f"PRAGMA {name}={val} keeps the rollback journal and durable commits",
                      f"`PRAGMA {name} = {m.group(2)}` on the writer connection: without a rollback journal / synchronous writes a failed or killed save cannot be rolled back - "
                      "the DELETE + partial INSERT reach the file and the previous checkpoint is lost or the database is corrupt", save, c)
    ctx.ok("R2.pragma", "sqlite3.save:pragmas", f"{n_prag} journal / synchronous PRAGMA(s) on the writer connection, none unsafe")
    kinds = {}
    for c in execs:
        text = sql_of(c)
        m = DESTRUCTIVE.search(text)
        kinds[c] = m.group(1).upper() if m else ("PRAGMA" if "PRAGMA" in text.upper() else "OTHER")
    deletes = [c for c, k in kinds.items() if k == "DELETE"]
    inserts = [c for c, k in kinds.items() if k == "INSERT"]
    # the table may also be emptied by DROP TABLE + CREATE TABLE.  sqlite3 opens its implicit transaction before INSERT / UPDATE / DELETE / REPLACE only: DDL runs in
    # autocommit unless an explicit BEGIN was executed first on every path - then it belongs to the transaction the commit / rollback end
    drops = [c for c, k in kinds.items() if k == "DROP"]
    begins = [c for c in execs if re.match(r"\s*BEGIN\b", sql_of(c), re.I)]
    if drops and not deletes:
        creates = [c for c in execs if re.match(r"\s*CREATE\s+TABLE", sql_of(c), re.I)]
        if not creates:
            raise AnalysisError(f"{save.loc(drops[0])}: the table is dropped and the statement that re-creates it cannot be read")
        gb = CFG(save.node, exc_edges=True)
        for d_ in drops:
            for dn in node_for(gb, d_):
                pth = gb.path_avoiding(gb.entry, {dn}, {x for b_ in begins for x in node_for(gb, b_)}, labels={"next", "true", "false", "loop", "exhaust"})
                ctx.check(pth is None, "R2.one-transaction", "sqlite3.save:ddl-inside-transaction", "the DROP TABLE that empties the table runs inside an explicit transaction",
                          "DROP TABLE runs without a preceding BEGIN: sqlite3 starts its implicit transaction for DML only, so the drop is committed on its own - a failing INSERT "
                          "is rolled back but the previous checkpoint is already gone", save, d_)
        deletes = drops
    commits = [c for c in calls if isinstance(c.func, ast.Attribute) and c.func.attr == "commit"]
    rollbacks = [c for c in calls if isinstance(c.func, ast.Attribute) and c.func.attr == "rollback"]
    closes = [c for c in calls if isinstance(c.func, ast.Attribute) and c.func.attr == "close"]
    ctx.floor("R2", "INSERT execution", len(inserts), 1)
    ctx.check(len(deletes) >= 1, "R2.single-row", "sqlite3.save:delete-present", "the previous row is deleted so that the table holds one checkpoint",
              "no DELETE is executed: the table accumulates rows and load returns the oldest checkpoint", save, save.node)
    ctx.check(len(commits) == 1, "R2.order", "sqlite3.save:one-commit", "exactly one commit()", f"{len(commits)} commit() calls", save, save.node)
    N = lambda cs: {x for c in cs for x in node_for(g, c) if any(y is c for y in ast.walk(save.node))}  # noqa: E731
    conn_in_save = [c for c in conn if conn_owner[id(c)] is save] + opener_calls
    normal = {"next", "true", "false", "loop", "exhaust"}
    # order: executescript -> DELETE -> INSERT -> commit, each on every normal path
    chain = [("executescript", N(scripts)), ("DELETE", N(deletes)), ("INSERT", N(inserts)), ("commit", N(commits))]
    for (an, a), (bn, b) in zip(chain, chain[1:]):
        if not a or not b:
            continue
        for bb in b:
            p = g.path_avoiding(g.entry, {bb}, a, labels=normal)
            ctx.check(p is None, "R2.order", f"sqlite3.save:{an}-before-{bn}", f"{an} precedes {bn} on every path",
                      f"{bn} can run without a preceding {an}" + (" - a commit between DELETE and INSERT splits the replacement into two transactions" if bn == "INSERT" else ""),
                      save, bb.ast, path_text(save, p))
    # no commit between DELETE and INSERT
    for d in N(deletes):
        for c_ in N(commits) | N(scripts):
            p1 = g.path_avoiding(d, {c_}, N(inserts), labels=normal)
            ctx.check(p1 is None, "R2.one-transaction", "sqlite3.save:no-commit-between-delete-and-insert", "DELETE and INSERT belong to one transaction",
                      "a commit / executescript can run after the DELETE and before the INSERT: the previous checkpoint is destroyed before the new one is safe", save, d.ast, path_text(save, p1))
    # every exceptional path after the connection exists reaches rollback, every exit reaches close
    rb = N(rollbacks)
    cl = N(closes)
    try_body_ids = {id(x) for t in ast.walk(save.node) if isinstance(t, ast.Try) for st in t.body for x in ast.walk(st)}
    dml = N(scripts) | N(deletes) | N(inserts) | N(commits) | {x for c in execs for x in node_for(g, c)}
    worst = None
    for n in sorted(dml, key=lambda x: x.idx):
        if not any(lab == "exc" for _, lab in n.succ):
            worst = (n, [n])  # a statement of the transaction outside any try: its failure skips rollback
            continue
        p = g.path_avoiding(n, {g.raise_exit}, rb, edge_ok=lambda a, b, lab2, n=n: not (a is n and lab2 != "exc"))
        if p is not None:
            worst = (n, p)
    ctx.check(worst is None and bool(rb), "R2.rollback", "sqlite3.save:rollback-on-error", "every failure after connect reaches rollback() before propagating",
              f"an exception at `{src(worst[0].ast)[:60] if worst else '?'}` propagates without rollback()", save, worst[0].ast if worst else save.node, path_text(save, worst[1]) if worst else None)
    for fn, gg, what in ((save, g, "save"), (load, CFG(load.node, exc_edges=True), "load")):
        openers = [c for c in calls_in(fn.node) if (dotted(c.func) or "") == "sqlite3.connect" or any(
            isinstance(t, FuncInfo) and t.module is fn.module and any((dotted(x.func) or "") == "sqlite3.connect" for x in calls_in(t.node)) for t in prog.resolve_call(fn, c))]
        # `with contextlib.closing(<open>) as connection:` closes on every exit by construction
        managed = []
        for w in [x for x in ast.walk(fn.node) if isinstance(x, ast.With)]:
            for it in w.items:
                ce = it.context_expr
                if isinstance(ce, ast.Call) and (dotted(ce.func) or "").split(".")[-1] == "closing" and ce.args and any(ce.args[0] is o or any(y is o for y in ast.walk(ce.args[0])) for o in openers):
                    managed.extend(o for o in openers if ce.args[0] is o or any(y is o for y in ast.walk(ce.args[0])))
                elif isinstance(ce, ast.Call) and (dotted(ce.func) or "").split(".")[-1] == "closing" and ce.args and isinstance(ce.args[0], ast.Name):
                    # `connection = <open>` immediately followed by `with closing(connection):` - nothing runs in between that could leave it open
                    blk = getattr(w, "_parent", None)
                    body = getattr(blk, "body", []) if blk is not None else []
                    if any(x is w for x in body):
                        k_ = next(i for i, x in enumerate(body) if x is w)
                        prev = body[k_ - 1] if k_ > 0 else None
                        if isinstance(prev, (ast.Assign, ast.AnnAssign)) and prev.value is not None and any(prev.value is o for o in openers) \
                                and isinstance(prev.targets[0] if isinstance(prev, ast.Assign) else prev.target, ast.Name) \
                                and (prev.targets[0] if isinstance(prev, ast.Assign) else prev.target).id == ce.args[0].id:
                            managed.extend(o for o in openers if prev.value is o)
        if openers and len(managed) == len(openers):
            ctx.ok("R2.close", f"sqlite3.{what}:close-on-every-exit", f"the connection of {what} is managed by contextlib.closing")
            continue
        cn = {x for c in openers for x in node_for(gg, c)}
        cls_nodes = {x for c in calls_in(fn.node) if isinstance(c.func, ast.Attribute) and c.func.attr == "close" for x in node_for(gg, c)}
        bad = None
        for c0 in cn:
            for t, lab in c0.succ:
                if lab == "exc":
                    continue
                p = gg.path_avoiding(c0, {gg.exit, gg.raise_exit}, cls_nodes, edge_ok=lambda a, b, lab2, c0=c0: not (a is c0 and lab2 == "exc"))
                if p is not None:
                    bad = p
        ctx.check(bad is None and bool(cls_nodes), "R2.close", f"sqlite3.{what}:close-on-every-exit", f"the connection is closed on every exit of {what}",
                  f"{what} can return / raise with the connection still open", fn, fn.node, path_text(fn, bad))
    # the reader must be able to finish the writer's recovery: after a process death in mid-transaction the previous row is only recovered when the next
    # connection rolls the hot journal back, which a read-only / immutable connection is not allowed to do (SQLITE_READONLY_ROLLBACK: every load then fails)
    from ..poly import single_assignment_env
    lenv = single_assignment_env(load.node)
    for c_ in [x for x in calls_in(load.node) if (dotted(x.func) or "") == "sqlite3.connect"]:
        texts = [src(a) for a in [*c_.args, *[k.value for k in c_.keywords]]]
        for a in [*c_.args, *[k.value for k in c_.keywords]]:
            for nm in [x.id for x in ast.walk(a) if isinstance(x, ast.Name) and x.id in lenv]:
                texts.append(src(lenv[nm]))
        blob = " ".join(texts)
        ro = re.search(r"mode=ro\b|immutable=1|nolock=1", blob)
        ctx.check(ro is None, "R2.reader-can-recover", "sqlite3.load:connect-mode", "load opens the database read-write, so a hot journal left by a killed save is rolled back on open",
                  f"`{' '.join(src(c_).split())[:120]}` opens the database `{ro.group(0) if ro else ''}`: a journal left by a save that died mid-transaction cannot be rolled back by this connection, "
                  "so the previous checkpoint - still recoverable on disk - is no longer loadable", load, c_)
    # exceptions are re-raised by the handler
    _handlers_reraise(ctx, save, "R2.rollback", "sqlite3.save")


def _handlers_reraise(ctx: Context, f: FuncInfo, rule: str, label: str) -> None:
    for h in [n for n in ast.walk(f.node) if isinstance(n, ast.ExceptHandler)]:
        g = CFG(f.node, exc_edges=False)
        hn = [x for x in g.live if x.kind == "handler" and x.ast is h]
        if not hn:
            continue
        # a normal path from the handler entry to the function's normal exit = swallowed exception
        p = g.path_avoiding(hn[0], {g.exit}, {x for x in g.live if x.kind == "raise"}, labels={"next", "true", "false", "loop", "exhaust"})
        typ = src(h.type) if h.type is not None else "everything"
        ctx.check(p is None, rule, f"{label}:handler:{typ}", f"the `except {typ}` handler re-raises",
                  f"`except {typ}` in {f.name} swallows the error: the caller cannot tell that the operation failed", f, h, path_text(f, p))


def r3_loud_load(ctx: Context, pl: Plumbing) -> None:
    prog = ctx.prog
    funcs = [pl.load, pl.restore, ctx.func(f"{SQL}:load_calibrator_state")]
    n_handlers = 0
    for f in funcs:
        for h in [n for n in ast.walk(f.node) if isinstance(n, ast.ExceptHandler)]:
            n_handlers += 1
        _handlers_reraise(ctx, f, "R3.loud", f.qualname.split(":")[1])
        for c in calls_in(f.node, scope_only=False):
            if (dotted(c.func) or "").split(".")[-1] == "suppress":
                ctx.fail("R3.loud", f"{f.qualname.split(':')[1]}:suppress", f"`{src(c)}` silences errors on the load path", f, c)
        # defaults substituted for missing data: dict.get with a default on checkpoint dictionaries
        for c in calls_in(f.node, scope_only=False):
            if isinstance(c.func, ast.Attribute) and c.func.attr == "get" and isinstance(c.func.value, ast.Name) and c.func.value.id in ("cp", "cr") and len(c.args) >= 1:
                ctx.fail("R3.loud", f"{f.qualname.split(':')[1]}:default:{src(c.args[0])}", f"`{src(c)}` substitutes a default for a missing checkpoint entry instead of failing", f, c)
    for f in funcs:
        for x in ast.walk(f.node):
            if isinstance(x, ast.Call) and isinstance(x.func, ast.Attribute) and x.func.attr in ("exists", "is_file") or (isinstance(x, ast.Call) and (dotted(x.func) or "") in ("os.path.exists", "os.path.isfile")):
                par = getattr(x, "_parent", None)
                while par is not None and not isinstance(par, (ast.If, ast.IfExp, ast.stmt)):
                    par = getattr(par, "_parent", None)
                if isinstance(par, (ast.If, ast.IfExp)):
                    ctx.fail("R3.loud", f"{f.qualname.split(':')[1]}:tolerates-missing:{' '.join(src(x).split())[:50]}",
                             f"`{' '.join(src(x).split())[:70]}` on the load path: a missing checkpoint file is tolerated and replaced by a default - exactly the on-disk state of a save interrupted before that file was written "
                             "is then restored silently as a truncated history", f, x)
    # reader options under which a file cut short parses as valid, smaller data instead of raising
    pl.load_sources()
    for e in [e for e in pl.load_reads if e.api == "read_csv"]:
        c = e.node
        nm = kwarg(c, "names")
        if nm is not None and not (isinstance(nm, ast.Constant) and nm.value is None):
            ctx.fail("R3.loud", "load_calibrator_state:read_csv:names", f"`read_csv(..., names={src(nm)[:40]})`: with the column names declared by the reader a file truncated at open (the state a "
                     "save interrupted right after opening it leaves) parses as an empty table instead of raising EmptyDataError - restored with the counters of the JSON file and no records", pl.load, c)
        bad = kwarg(c, "on_bad_lines")
        if bad is not None and not (isinstance(bad, ast.Constant) and bad.value == "error"):
            ctx.fail("R3.loud", "load_calibrator_state:read_csv:on_bad_lines", f"`on_bad_lines={src(bad)}` drops the partially written last row of an interrupted save instead of failing", pl.load, c)
        for k in ("error_bad_lines", "warn_bad_lines"):
            v_ = kwarg(c, k)
            if v_ is not None and isinstance(v_, ast.Constant) and v_.value is False and k == "error_bad_lines":
                ctx.fail("R3.loud", f"load_calibrator_state:read_csv:{k}", f"`{k}=False` drops the partially written last row of an interrupted save instead of failing", pl.load, c)
    ctx.ok("R3.loud", "load-paths:scanned", f"{len(funcs)} load functions scanned, {n_handlers} handler(s) re-raise")
