"""C13 - quasi-random samplers continue their sequences without gaps (structural clauses)."""
from __future__ import annotations

import ast
from fractions import Fraction

from ..cfg import CFG
from ..errors import AnalysisError
from ..model import FuncInfo, dotted, src, walk_scope
from ..poly import Rat, p_atom, p_const
from ..report import Context
from ..util import calls_in, exactly_once_between, is_self_attr, kwarg, node_for, normaliser, parse_expr, path_text, returns_of

LEVEL_TEXT = (
    "Static analysis of halton.py / r_sequence.py (no execution): cursor continuity - the cursor attribute is read as "
    "the start index handed to the generator together with the requested count, and on every path written back exactly "
    "once as start + count, after the read (linear normal forms + CFG path queries), so two batches of n equal one of "
    "2n; halton() visits the consecutive indices n_start+1 .. n_start+sample_size and stores index i in row i-1-n_start; "
    "the cursor (and the R-sequence offset) are re-drawn from the sampler's own generator on every seed reset after the "
    "base-class reseed; start range folds to [20, 2^16); R-sequence scalars: alpha_k = phi^-k for k=1..d, points "
    "(offset + n*alpha) mod 1, phi iterated as (1+phi)^(1/(d+1)) from 2.0 to a fixed point. The digit loop of halton() must be driven by the running quotient (a round count fixed beforehand from a floating-point logarithm is a finding), and the cache of primes must be extended from a stateful iterator created once (iterator protocol or generator object - not a restartable iterable). The digit arithmetic itself "
    "and the prime sieve are numerical/algorithmic clauses that are not decided."
    ' Every attribute the sampling methods write (cursor, carried point) is re-assigned on a seed reset.'
)
TECHNIQUE = "linear normal forms of cursor arithmetic + canonical loop-header reading + must-pass-through CFG queries + constant folding + iterator-protocol (typestate) rule for the prime stream"

HS = "black_it.samplers.halton:HaltonSampler"
RS = "black_it.samplers.r_sequence:RSequenceSampler"


def _cursor_kept_as_attribute(ctx: Context, cls_q: str, attrs: list[str]) -> None:
    """The cursor rules read the cursor as a plain attribute of the sampler.  When no method of the class stores it any more (the state moved into another object),
    what they would say about `self.<attr>` is about nothing: undecided."""
    c = ctx.prog.find_class(cls_q.split(":")[-1])
    stores = ctx.prog.attr_stores(c, inherited=True) if c is not None else {}
    for a in attrs:
        if not stores.get(a):
            raise AnalysisError(f"{cls_q.split(':')[-1]} no longer stores `{a}`: the sequence cursor is kept in another structure, which the cursor rules do not read")


def run(ctx: Context) -> None:
    ctx.rule(halton_cursor)
    ctx.rule(halton_function)
    ctx.rule(rseq_cursor)
    ctx.rule(reseed, HS, ["_sequence_index"])
    ctx.rule(reseed, RS, ["_sequence_index", "_sequence_start"])
    ctx.rule(rseq_scalars)
    ctx.rule(plumbing)
    ctx.rule(prime_cache)


def _cursor_writes(f: FuncInfo, attr: str) -> list[ast.stmt]:
    out = []
    for s in walk_scope(f.node):
        if isinstance(s, ast.AugAssign) and is_self_attr(s.target, f.self_name, attr):
            out.append(s)
        elif isinstance(s, ast.Assign) and any(is_self_attr(t, f.self_name, attr) for t in s.targets):
            out.append(s)
        elif isinstance(s, ast.AnnAssign) and s.value is not None and is_self_attr(s.target, f.self_name, attr):
            out.append(s)
    return out


def _written_value(n, s: ast.stmt, attr_expr: str) -> Rat | None:
    if isinstance(s, ast.AugAssign):
        if isinstance(s.op, ast.Add):
            return n.rat(parse_expr(attr_expr)) + n.rat(s.value)
        if isinstance(s.op, ast.Sub):
            return n.rat(parse_expr(attr_expr)) - n.rat(s.value)
        return None
    return n.rat(s.value)  # type: ignore[union-attr]


def cursor_rule(ctx: Context, f: FuncInfo, attr: str, start_expr: ast.expr, count_expr: ast.expr, gen_call: ast.Call, tag: str) -> None:
    n = normaliser(ctx.prog, f)
    cur = f"self.{attr}"
    count_param = f.bound_params[0]
    ctx.check(n.rat(start_expr).equals(n.rat(parse_expr(cur))), f"R1.{tag}-start", f"{f.cls.name}.{f.name}:start",
              "the generator starts at the stored cursor", f"the generator starts at `{src(start_expr)}` instead of the cursor", f, gen_call)
    ctx.check(n.rat(count_expr).equals(n.rat(parse_expr(count_param))), f"R1.{tag}-count", f"{f.cls.name}.{f.name}:count",
              f"the generator is asked for `{count_param}` points", f"the generator is asked for `{src(count_expr)}` points", f, gen_call)
    writes = _cursor_writes(f, attr)
    if not writes:
        ctx.fail(f"R1.{tag}-advance", f"{f.cls.name}.{f.name}:advance-every-path",
                 f"{f.name} never writes the cursor {attr} back: every batch restarts at the same index", f, f.node)
        return
    g = CFG(f.node)
    marks = {x for w in writes for x in g.nodes_of(w)}
    miss, twice = exactly_once_between(g, g.entry, {g.exit}, marks)
    ctx.check(miss is None, f"R1.{tag}-advance", f"{f.cls.name}.{f.name}:advance-every-path", "every path advances the cursor",
              "a path returns without advancing the cursor (the next batch repeats points)", f, f.node, path_text(f, miss))
    ctx.check(twice is None, f"R1.{tag}-advance", f"{f.cls.name}.{f.name}:advance-once", "no path advances the cursor twice",
              "a path advances the cursor twice (points are skipped)", f, f.node, path_text(f, twice))
    for w in writes:
        # value written = cursor(before) + count ; the local holding it may have been computed before (end_index)
        val = _written_value(n, w, cur)
        want = n.rat(parse_expr(f"{cur} + {count_param}"))
        ctx.check(val is not None and val.equals(want), f"R1.{tag}-advance", f"{f.cls.name}.{f.name}:advance-amount",
                  f"cursor <- cursor + {count_param}", f"cursor is advanced by `{src(w)}` (normal form {val}) instead of cursor + {count_param}", f, w)
    # read before write: no path entry -> generator call that passes through a cursor write
    gen_nodes = set(node_for(g, gen_call))
    for w in marks:
        p = g.path_avoiding(w, gen_nodes, set())
        ctx.check(p is None, f"R1.{tag}-order", f"{f.cls.name}.{f.name}:read-before-write", "the cursor is read for this batch before it is advanced",
                  "the cursor is advanced before the generator reads it (first point skipped)", f, gen_call, path_text(f, p))


def halton_cursor(ctx: Context) -> None:
    _cursor_kept_as_attribute(ctx, HS, ["_sequence_index"])
    f = ctx.func(f"{HS}._halton")
    calls = [c for c in calls_in(f.node) if any(isinstance(t, FuncInfo) and t.qualname == "black_it.samplers.halton:halton" for t in ctx.prog.resolve_call(f, c))]
    ctx.floor("R1", "halton() call in HaltonSampler._halton", len(calls), 1)
    c = calls[0]
    size, start = kwarg(c, "sample_size", 0), kwarg(c, "n_start", 2)
    if size is None or start is None:
        raise AnalysisError("cannot bind halton(sample_size, bases, n_start) arguments")
    cursor_rule(ctx, f, "_sequence_index", start, size, c, "halton")
    # the returned array is the generator's result
    n = normaliser(ctx.prog, f)
    for r in returns_of(f):
        ctx.check(str(n.rat(r.value)) == str(n.rat(c)), "R1.halton-result", "HaltonSampler._halton:return", "returns the generated points",
                  f"returns `{src(r.value)}`", f, r)
    bases = kwarg(c, "bases", 1)
    ok = bases is not None and str(n.rat(bases)) == str(n.rat(parse_expr("self._prime_number_generator.get_n_primes(dims)")))
    ctx.check(ok, "R1.halton-bases", "HaltonSampler._halton:bases", "bases are the first `dims` primes", f"bases are `{src(bases) if bases else '?'}`", f, c)


def halton_function(ctx: Context) -> None:
    f = ctx.func("black_it.samplers.halton:halton")
    n = normaliser(ctx.prog, f, inline_locals=False)
    loops = [s for s in f.node.body if isinstance(s, ast.For)]
    ctx.floor("R1", "index loop in halton()", len(loops), 1)
    lp = loops[0]
    # the index loop read through its header (`for i in range(a, b)`, `for row, i in enumerate(range(a, b))`, ...): at iteration _I_ (0-based) the
    # sequence index n_start + 1 + _I_ is expanded and stored in row _I_, for _I_ in range(sample_size)
    from ..util import IDX, _substitute, loop_binding
    benv, counts = loop_binding(lp.target, lp.iter)

    def at_iteration(e: ast.expr) -> ast.expr:
        for nm, v in benv.items():
            e = _substitute(e, nm, v)
        return e

    want_index = n.rat(parse_expr(f"n_start + 1 + {IDX}"))
    index_vars = [nm for nm, v in benv.items() if n.rat(v).equals(want_index)]
    rets_ = returns_of(f)
    out_nm = src(rets_[0].value) if rets_ and isinstance(rets_[0].value, ast.Name) else "sequence"
    # zip(<result array>, range(..)) iterates the rows of the result: its length is sample_size by the allocation (checked below as R1.halton-shape)
    count_ok = bool(counts) and all(n.rat(c).equals(n.rat(parse_expr("sample_size"))) or str(n.rat(c)) == str(n.rat(parse_expr(f"len({out_nm})"))) for c in counts) \
        and any(n.rat(c).equals(n.rat(parse_expr("sample_size"))) for c in counts)
    ctx.check(len(index_vars) == 1 and count_ok, "R1.halton-indices", "halton:index-range", "halton() visits the consecutive indices n_start+1 .. n_start+sample_size",
              f"halton() iterates `for {src(lp.target)} in {src(lp.iter)}`", f, lp)
    ix = index_vars[0] if index_vars else (lp.target.id if isinstance(lp.target, ast.Name) else "index")
    used = any(isinstance(x, ast.Name) and x.id == ix and isinstance(x.ctx, ast.Load) for st in lp.body for x in ast.walk(st)
               if not (isinstance(st, ast.Assign) and isinstance(st.targets[0], ast.Subscript) and any(x is y for y in ast.walk(st.targets[0]))))
    ctx.check(used or not index_vars, "R1.halton-indices", "halton:index-used", "the digit expansion starts from the loop's sequence index", f"`{ix}` is not what the loop body expands", f, lp)
    rets0 = returns_of(f)
    out_name = src(rets0[0].value) if rets0 and isinstance(rets0[0].value, ast.Name) else "sequence"
    def root_of(t: ast.expr) -> ast.expr:
        while isinstance(t, ast.Subscript):
            t = t.value
        return t

    stores = []
    for s_ in ast.walk(lp):
        if isinstance(s_, ast.Assign) and isinstance(s_.targets[0], ast.Subscript):
            tgt = at_iteration(s_.targets[0])  # `row[:] = v` with row bound to sequence[_I_] by the loop header reads `sequence[_I_][:] = v`
            if src(root_of(tgt)) == out_name:
                stores.append((s_, tgt))
    ok = len(stores) == 1
    if ok:
        tgt = stores[0][1]
        first = tgt
        while isinstance(first.value, ast.Subscript):
            first = first.value
        sl = first.slice
        row = sl.elts[0] if isinstance(sl, ast.Tuple) else sl
        ok = n.rat(row).equals(n.rat(parse_expr(IDX)))
    stores = [s_ for s_, _ in stores]
    ctx.check(ok, "R1.halton-indices", "halton:row-of-index", "index i is stored in row i-1-n_start (no gap, no overlap)",
              f"row store is `{src(stores[0]) if stores else '?'}`", f, stores[0] if stores else lp)
    # The digit loop must be driven by the running quotient itself: it stops when the quotient is exhausted, whatever the index.  A loop bounded by a
    # digit count computed beforehand with floating-point logarithms is one digit short at exact powers of the base (ceil(log_b b^k) = k, but b^k has
    # k+1 digits) and is at the mercy of rounding elsewhere - so the last point of a batch that ends on 2^k gets coordinate 0 in base 2.
    def quotient_vars(loop: ast.AST) -> set[str]:
        out: set[str] = set()
        for x in ast.walk(loop):
            if isinstance(x, ast.AugAssign) and isinstance(x.op, ast.FloorDiv) and isinstance(x.target, ast.Name):
                out.add(x.target.id)
            elif isinstance(x, ast.Assign):
                v = x.value
                tg = x.targets[0]
                if isinstance(v, ast.BinOp) and isinstance(v.op, ast.FloorDiv) and isinstance(tg, ast.Name) and isinstance(v.left, ast.Name) and v.left.id == tg.id:
                    out.add(tg.id)
                if isinstance(v, ast.Call) and (dotted(v.func) or "").split(".")[-1] in ("divmod", "floor_divide") and v.args and isinstance(v.args[0], ast.Name):
                    first = tg.elts[0] if isinstance(tg, (ast.Tuple, ast.List)) and tg.elts else tg
                    if isinstance(first, ast.Name) and first.id == v.args[0].id:
                        out.add(first.id)
        return out

    digit_loops = [x for x in ast.walk(f.node) if isinstance(x, (ast.While, ast.For)) and x is not lp and quotient_vars(x) and not any(
        isinstance(y, (ast.While, ast.For)) and y is not x and quotient_vars(y) for y in ast.walk(x))]
    ctx.floor("R1", "digit loop (repeated floor division of the index by the bases) in halton()", len(digit_loops), 1)
    for dl in digit_loops:
        qv = quotient_vars(dl)
        if isinstance(dl, ast.While):
            tested = {x.id for x in ast.walk(dl.test) if isinstance(x, ast.Name)}
            ctx.check(bool(tested & qv), "R1.halton-digits", "halton:digit-loop-until-exhausted", "the digit loop runs while the running quotient is non-zero",
                      f"the digit loop `while {src(dl.test)[:50]}` does not test the quotient it divides ({sorted(qv)})", f, dl)
        else:
            bound_names = {x.id for x in ast.walk(dl.iter) if isinstance(x, ast.Name)}
            defs = [d for d in ast.walk(f.node) if isinstance(d, (ast.Assign, ast.AnnAssign)) and getattr(d, "value", None) is not None
                    and any(isinstance(t, ast.Name) and t.id in bound_names for t in (d.targets if isinstance(d, ast.Assign) else [d.target]))]
            texts = [src(dl.iter)] + [src(d.value) for d in defs]
            uses_log = any(isinstance(c_, ast.Call) and (dotted(c_.func) or "").split(".")[-1] in ("log", "log2", "log10", "log1p") for t in [dl.iter] + [d.value for d in defs] for c_ in ast.walk(t))
            if uses_log:
                ctx.fail("R1.halton-digits", "halton:digit-loop-until-exhausted", f"the digit loop runs a number of rounds fixed beforehand from a floating-point logarithm (`{texts[-1][:80]}`): "
                         "ceil(log_b N) is one short when N is an exact power of the base (and float rounding can shorten it elsewhere), so the leading digit of such an index is dropped - "
                         "e.g. the last point of a batch ending on index 2^k has coordinate 0 in base 2", f, dl)
            else:
                raise AnalysisError(f"{f.loc(dl)}: the digit loop is bounded by `{src(dl.iter)[:60]}`, not by the exhaustion of the quotient; cannot decide whether every digit is produced")
    alloc = [s.value for s in f.node.body if isinstance(s, (ast.Assign, ast.AnnAssign)) and isinstance(s.value, ast.Call) and src(s.targets[0] if isinstance(s, ast.Assign) else s.target) == out_name]
    nin = normaliser(ctx.prog, f)
    ok = bool(alloc) and kwarg(alloc[0], "shape", 0) is not None and str(nin.rat(kwarg(alloc[0], "shape", 0))) == str(nin.rat(parse_expr("(sample_size, len(bases))")))
    ctx.check(ok, "R1.halton-shape", "halton:shape", "result has sample_size rows and one column per base", f"allocation `{src(alloc[0]) if alloc else '?'}`", f, alloc[0] if alloc else f.node)
    for r in returns_of(f):
        ctx.check(isinstance(r.value, ast.Name) and bool(alloc), "R1.halton-shape", "halton:return", "returns the filled array", f"returns `{src(r.value)}`", f, r)


def rseq_cursor(ctx: Context) -> None:
    _cursor_kept_as_attribute(ctx, RS, ["_sequence_index", "_sequence_start"])
    f = ctx.func(f"{RS}._r_sequence")
    n = normaliser(ctx.prog, f)
    ar = [c for c in calls_in(f.node) if (dotted(c.func) or "").endswith("arange") and len(c.args) == 2 and "_sequence_index" in str(n.rat(c.args[0]))]
    ctx.floor("R1", "index arange in _r_sequence", len(ar), 1)
    c = ar[0]
    count = ast.BinOp(left=c.args[1], op=ast.Sub(), right=c.args[0])
    cursor_rule(ctx, f, "_sequence_index", c.args[0], count, c, "rseq")
    # points = (offset + indexes . alpha) mod 1, alpha_k = phi^-k, k = 1..dims
    cnt_param, dims_param = f.bound_params[0], f.bound_params[1]
    want = n.rat(parse_expr(
        f"(self._sequence_start + np.arange(self._sequence_index, self._sequence_index + {cnt_param}).reshape((-1, 1)).dot("
        f"np.power(1 / self.compute_phi({dims_param}), np.arange(1, {dims_param} + 1)).reshape((1, -1)))) % 1"))
    for r in returns_of(f):
        got = n.rat(r.value)
        ctx.check(str(got) == str(want), "R4.rseq-points", "RSequenceSampler._r_sequence:return",
                  "points are (offset + n * alpha) mod 1 with alpha_k = phi^-k, k = 1..dims, n = cursor..cursor+count-1",
                  f"R-sequence points are `{str(got)[:200]}`, expected `{str(want)[:200]}`", f, r)


def reseed(ctx: Context, cls_q: str, attrs: list[str]) -> None:
    _cursor_kept_as_attribute(ctx, cls_q, attrs)
    prog = ctx.prog
    cls = prog.find_class(cls_q.split(":")[1])
    srs = cls.methods.get("_set_random_state")
    ctx.check(srs is not None, "R2.override", f"{cls.name}._set_random_state", f"{cls.name} overrides _set_random_state to reset its cursor",
              f"{cls.name} does not override _set_random_state: a seed reset keeps the old cursor", None, None)
    if srs is None:
        return
    ctx.analysed(srs)
    g = CFG(srs.node)
    sup = [c for c in calls_in(srs.node) if isinstance(c.func, ast.Attribute) and c.func.attr == "_set_random_state" and isinstance(c.func.value, ast.Call) and dotted(c.func.value.func) == "super"]
    ok = len(sup) == 1 and [src(a) for a in sup[0].args] == [srs.bound_params[0]]
    ctx.check(ok, "R2.super-first", f"{cls.name}._set_random_state:super", "the base-class reseed runs with the unmodified seed",
              "super()._set_random_state(random_state) is missing or altered", srs, srs.node)
    # attributes re-drawn in code reachable from _set_random_state, after the super call, from the own generator
    reach = [srs]
    for c in calls_in(srs.node):
        for t in prog.resolve_call(srs, c):
            if isinstance(t, FuncInfo) and t.cls is cls and t not in reach:
                reach.append(t)
    for a in attrs:
        hits = []
        for f in reach:
            for s in _cursor_writes(f, a):
                hits.append((f, s))
        ok = bool(hits)
        ctx.check(ok, "R2.reset", f"{cls.name}._set_random_state:{a}", f"{a} is re-drawn on every seed reset",
                  f"{a} is not reset when the sampler is re-seeded (hidden state survives a random_state reset)", srs, srs.node)
        for f, s in hits:
            v = s.value  # type: ignore[union-attr]
            if isinstance(v, ast.Name):
                from ..poly import single_assignment_env
                v = single_assignment_env(f.node).get(v.id, v)  # the draw may be held in a local first
            from_gen = isinstance(v, ast.Call) and isinstance(v.func, ast.Attribute) and src(v.func.value) == "self.random_generator" and v.func.attr in ("integers", "random")
            ctx.check(from_gen and not isinstance(s, ast.AugAssign), "R2.reset-source", f"{cls.name}.{f.name}:{a}",
                      f"{a} is drawn from the sampler's own generator", f"{a} is reset to `{src(v)}` - not a fresh draw from the sampler's own generator", f, s)
            if a == "_sequence_index" and from_gen:
                n = normaliser(prog, f, inline_locals=False)
                lo, hi = kwarg(v, "low", 0), kwarg(v, "high", 1)
                lo_c = _fold(prog, f, lo)
                hi_c = _fold(prog, f, hi)
                ctx.check(lo_c == 20 and hi_c == 2 ** 16, "R3.start-range", f"{cls.name}.{f.name}:start-range", "start index drawn in [20, 2^16)",
                          f"start index drawn in [{lo_c}, {hi_c})", f, s)
        # ordering: the helper call / store comes after the super call
        if sup:
            sup_nodes = set(node_for(g, sup[0]))
            later = set()
            for c in calls_in(srs.node):
                if any(isinstance(t, FuncInfo) and t in reach[1:] for t in prog.resolve_call(srs, c)):
                    later.update(node_for(g, c))
            for s in _cursor_writes(srs, a):
                later.update(g.nodes_of(s))
            for ln in later:
                p = g.path_avoiding(g.entry, {ln}, sup_nodes)
                ctx.check(p is None, "R2.order", f"{cls.name}._set_random_state:reset-after-reseed:{a}",
                          "the cursor is re-drawn after the generator was re-seeded", "the cursor is drawn from the OLD generator (before the reseed)", srs, ln.ast)
    # no other state may carry the position in the sequence across a seed reset: every attribute that the sampling methods write (state handed from one
    # batch to the next) is also re-assigned in code reachable from _set_random_state
    reach_q = {f.qualname for f in reach}
    carried: dict[str, tuple[FuncInfo, ast.stmt]] = {}
    reset_attrs: set[str] = set()
    for f in cls.methods.values():
        for s_ in walk_scope(f.node):
            if isinstance(s_, (ast.Assign, ast.AugAssign, ast.AnnAssign)) and getattr(s_, "value", None) is not None:
                for t in (s_.targets if isinstance(s_, ast.Assign) else [s_.target]):
                    base_t = t
                    while isinstance(base_t, ast.Subscript):
                        base_t = base_t.value
                    if is_self_attr(base_t, f.self_name):
                        if f.qualname in reach_q:
                            reset_attrs.add(base_t.attr)  # type: ignore[union-attr]
                        elif f.name != "__init__":
                            carried.setdefault(base_t.attr, (f, s_))  # type: ignore[union-attr]
    for a, (f, s_) in sorted(carried.items()):
        ctx.check(a in reset_attrs, "R2.no-carried-state", f"{cls.name}.{f.name}:{a}", f"{a} (written by {f.name}) is re-assigned on every seed reset",
                  f"`{src(s_)[:80]}`: {cls.name}.{f.name} keeps sequence state in self.{a}, which _set_random_state never resets - after re-seeding, the sampler continues the OLD "
                  "seed's sequence, so the points are no longer determined by the new seed", f, s_)
    # constructor ends up with a drawn cursor too (the base constructor triggers _set_random_state)
    init = cls.methods.get("__init__")
    if init is not None:
        ctx.analysed(init)


def _fold(prog, f: FuncInfo, e: ast.expr | None):
    if e is None:
        return None
    if isinstance(e, ast.Name):
        consts = prog.module_consts.get(f.module.name, {})
        if e.id in consts:
            return _fold(prog, f, consts[e.id])
        return None
    if isinstance(e, ast.Constant) and isinstance(e.value, int):
        return e.value
    if isinstance(e, ast.BinOp):
        a, b = _fold(prog, f, e.left), _fold(prog, f, e.right)
        if a is None or b is None:
            return None
        if isinstance(e.op, ast.Pow):
            return a ** b
        if isinstance(e.op, ast.Add):
            return a + b
        if isinstance(e.op, ast.Sub):
            return a - b
        if isinstance(e.op, ast.Mult):
            return a * b
    return None


def rseq_scalars(ctx: Context) -> None:
    _cursor_kept_as_attribute(ctx, RS, ["_sequence_index", "_sequence_start"])
    """phi_d is the fixed point of x -> (1 + x)^(1/(d+1)), iterated from 2.0 until the value no longer changes (exact float equality).
    Two spellings of the same iteration are read: `while prev != x: prev = x; x = F(x)` and `while True: y = F(x); if y == x: return y; x = y`.
    The function may contain the iteration more than once (a helper read in place on several paths) and may keep results in a value-keyed memo:
    every loop is checked, and every return hands out the variable of a checked loop or the memo entry stored from one under the key `d`."""
    f = ctx.func(f"{RS}.compute_phi")
    n = normaliser(ctx.prog, f, inline_locals=False)
    d = f.bound_params[0]
    rets = returns_of(f)
    loops = [w for w in walk_scope(f.node) if isinstance(w, ast.While)]
    ctx.floor("R4", "fixed-point loop in compute_phi", len(loops), 1)
    all_loop_nodes = {id(x) for w in loops for x in ast.walk(w)}
    multi = len(loops) > 1
    good_vars: set[str] = set()
    for k, w in enumerate(loops):
        tag = "" if not multi else f"#{k}"
        in_loop = {id(x) for x in ast.walk(w)}
        # the iterated variable: a name updated in the loop by F(name)
        cands = []
        for s_ in ast.walk(w):
            if isinstance(s_, ast.Assign) and isinstance(s_.targets[0], ast.Name):
                for xname in {y.id for y in ast.walk(s_.value) if isinstance(y, ast.Name)} - {d}:
                    if n.rat(s_.value).equals(n.rat(parse_expr(f"(1 + {xname}) ** (1.0 / ({d} + 1))"))):
                        cands.append((xname, s_))
        if not cands:
            inits0 = [s_ for s_ in walk_scope(f.node) if isinstance(s_, (ast.Assign, ast.AnnAssign)) and id(s_) not in all_loop_nodes and isinstance(s_.value, ast.Constant) and s_.value.value == 2.0]
            if not inits0:
                ctx.fail("R4.phi", f"RSequenceSampler.compute_phi:start{tag}", "phi does not start from 2.0", f, w)
                continue
            xg = src(inits0[0].targets[0] if isinstance(inits0[0], ast.Assign) else inits0[0].target)
            others = [s_ for s_ in ast.walk(w) if isinstance(s_, (ast.Assign, ast.AugAssign)) and src(s_.targets[0] if isinstance(s_, ast.Assign) else s_.target) == xg]
            ctx.fail("R4.phi", f"RSequenceSampler.compute_phi:update{tag}", f"phi update is `{src(others[0]) if others else '?'}`" if others else "no update phi <- (1 + phi)^(1/(d+1)) in the loop", f, (others or [w])[0])
            continue
        x, upd0 = cands[0]
        upd = [u for xn, u in cands if xn == x]
        inits = [s_ for s_ in walk_scope(f.node) if isinstance(s_, (ast.Assign, ast.AnnAssign)) and id(s_) not in all_loop_nodes
                 and src(s_.targets[0] if isinstance(s_, ast.Assign) else s_.target) == x]
        start_ok = bool(inits) and all(isinstance(s_.value, ast.Constant) and s_.value.value == 2.0 and type(s_.value.value) is float for s_ in inits)
        ctx.check(start_ok, "R4.phi", f"RSequenceSampler.compute_phi:start{tag}", "the fixed-point iteration starts from 2.0", "phi does not start from 2.0", f, inits[0] if inits else w)
        others = [s_ for s_ in ast.walk(w) if isinstance(s_, (ast.Assign, ast.AugAssign)) and src(s_.targets[0] if isinstance(s_, ast.Assign) else s_.target) == x and s_ not in upd
                  and not (isinstance(s_, ast.Assign) and isinstance(s_.value, ast.Name) and any(s_.value.id == src(u.targets[0]) for u in upd))]
        ctx.check(len(upd) == 1 and not others, "R4.phi", f"RSequenceSampler.compute_phi:update{tag}", "phi <- (1 + phi)^(1/(d+1))",
                  f"phi update is `{src(upd[0].value) if upd else (src(others[0]) if others else '?')}`", f, (others or upd or [w])[0])
        if len(upd) != 1:
            continue
        y = src(upd[0].targets[0])
        ok = False
        why = f"loop condition is `{src(w.test)}`"
        if y == x:
            prev = [src(s_.targets[0]) for s_ in ast.walk(w) if isinstance(s_, ast.Assign) and src(s_.value) == x and isinstance(s_.targets[0], ast.Name)]
            ok = bool(prev) and n.canon(w.test) in (n.canon(parse_expr(f"{prev[0]} != {x}")), n.canon(parse_expr(f"{x} != {prev[0]}"))) and not any(id(r) in in_loop for r in rets)
            if ok:
                good_vars.add(x)
        else:
            eq_forms = {n.canon(parse_expr(f"{y} == {x}")), n.canon(parse_expr(f"{x} == {y}")), n.canon(parse_expr(f"not {y} != {x}")), n.canon(parse_expr(f"not {x} != {y}"))}
            tests = [t for t in ast.walk(w) if isinstance(t, ast.If) and n.canon(t.test) in eq_forms]
            carry = [s_ for s_ in ast.walk(w) if isinstance(s_, ast.Assign) and src(s_.targets[0]) == x and src(s_.value) == y]
            leaves = bool(tests) and all(isinstance(t.body[-1], (ast.Return, ast.Break)) for t in tests)
            endless = isinstance(w.test, ast.Constant) and w.test.value is True
            ok = len(tests) == 1 and leaves and len(carry) == 1 and endless
            why = f"loop `while {src(w.test)}` with exit test(s) {[src(t.test) for t in tests]}"
            if ok:
                good_vars |= {x, y}
        ctx.check(ok, "R4.phi", f"RSequenceSampler.compute_phi:fixed-point{tag}", "iterated until phi no longer changes (exact equality of two successive values)", why, f, w)
    # what is handed out: the variable of a checked loop, or the entry of a value memo that was stored from one under the key d
    memo_ok: set[str] = set()
    for s_ in walk_scope(f.node):
        if isinstance(s_, ast.Assign) and len(s_.targets) == 1 and isinstance(s_.targets[0], ast.Subscript) and isinstance(s_.targets[0].value, ast.Name) \
                and src(s_.targets[0].slice) == d and isinstance(s_.value, ast.Name) and s_.value.id in good_vars:
            memo_ok.add(s_.targets[0].value.id)
    for nm in list(memo_ok):
        if any(isinstance(s_, ast.Assign) and any(isinstance(t, ast.Subscript) and isinstance(t.value, ast.Name) and t.value.id == nm for t in s_.targets)
               and not (src(s_.targets[0].slice) == d and isinstance(s_.value, ast.Name) and s_.value.id in good_vars) for s_ in walk_scope(f.node)):
            memo_ok.discard(nm)
    for r in rets:
        v = r.value
        ok = (isinstance(v, ast.Name) and v.id in good_vars) or (isinstance(v, ast.Subscript) and isinstance(v.value, ast.Name) and v.value.id in memo_ok and src(v.slice) == d)
        if not ok and not good_vars:
            continue    # the loop findings above already say what is wrong
        ctx.check(ok, "R4.phi", f"RSequenceSampler.compute_phi:return:{src(v)[:30]}", "compute_phi returns the fixed point it iterated to",
                  f"compute_phi returns `{src(v)[:60]}`, which is not the variable of the fixed-point iteration", f, r)


def plumbing(ctx: Context) -> None:
    """sample_batch hands (batch_size, dims) to the generator and maps the unit cube to the box before snapping."""
    for q, helper in ((HS, "_halton"), (RS, "_r_sequence")):
        f = ctx.func(f"{q}.sample_batch")
        if ctx.prog.lookup_method(f.cls, helper) is None:
            raise AnalysisError(f"anchor vanished: {f.cls.name}.{helper} (the unit-cube generator the cursor rules are anchored in)")
        n = normaliser(ctx.prog, f)
        want = n.rat(parse_expr(
            f"digitize_data(search_space.parameters_bounds[0] + self.{helper}(batch_size, search_space.dims) * "
            f"(search_space.parameters_bounds[1] - search_space.parameters_bounds[0]), search_space.param_grid)"))
        for r in returns_of(f):
            got = n.rat(r.value)
            ctx.check(str(got) == str(want), "R1.plumbing", f"{f.cls.name}.sample_batch:return",
                      "snap(lower + unit_points(batch_size, dims) * (upper - lower))",
                      f"{f.cls.name}.sample_batch returns `{str(got)[:220]}`", f, r)


# ---------------------------------------------------------------------------------------------- prime cache
def prime_cache(ctx: Context) -> None:
    """The bases are the first d primes for every d asked of one sampler in any order: the cache of primes is extended by pulling
    from an iterator *kept on the object*, so each extension must continue where the previous one stopped.  `islice(x, k)` / `next(x)` /
    `for .. in x` call iter(x); the stream continues only if iter(x) is x (iterator protocol: `__next__`, `__iter__` returning self) or x is a
    generator object / `iter(...)` result created once.  An iterable whose `__iter__` starts afresh (a generator method, a list) restarts at
    the first prime on every extension and yields bases such as [2, 3, 3, 5]."""
    prog = ctx.prog
    mod = prog.modules["black_it.samplers.halton"]
    pulls = []
    for cls in [c for c in prog.classes.values() if c.module is mod]:
        for f in cls.methods.values():
            for c in calls_in(f.node):
                fn = dotted(c.func) or ""
                if fn.split(".")[-1] in ("islice", "next", "takewhile") and c.args and is_self_attr(c.args[0], f.self_name):
                    pulls.append((cls, f, c, c.args[0].attr))
    ctx.floor("R5", "pulls from a stored iterator in halton.py", len(pulls), 1)
    for cls, f, node, attr in pulls:
        ctx.analysed(f)
        stores = prog.attr_stores(cls).get(attr, [])
        if not stores:
            raise AnalysisError(f"{f.loc(node)}: no store to self.{attr} found; cannot decide what is iterated")
        # the attribute must be created once (constructor), never re-created per call
        outside = [st for fn_, st, _ in stores if fn_.name != "__init__"]
        ctx.check(not outside, "R5.prime-stream", f"{cls.name}.{attr}:created-once", f"self.{attr} is created in the constructor only",
                  f"self.{attr} is re-created in {', '.join(sorted({fn_.name for fn_, _, _ in stores if fn_.name != '__init__'}))}: the prime stream restarts", f, outside[0] if outside else None)
        for fn_, st, val in stores:
            ok, why = _stateful_iterator(prog, fn_, val)
            ctx.check(ok, "R5.prime-stream", f"{cls.name}.{attr}:stateful-iterator", f"self.{attr} = {src(val)[:50] if val is not None else '?'} is a stateful iterator ({why}): each extension of the cache continues the stream",
                      f"`{src(node)[:80]}` pulls from self.{attr} = `{src(val)[:60] if val is not None else '?'}`, which is {why}: every extension of the cache starts again at the first prime, "
                      "so a sampler asked for d and later for d' > d dimensions gets repeated / wrong bases", f, node)


def _stateful_iterator(prog, f: FuncInfo, val: ast.expr | None) -> tuple[bool, str]:
    if val is None:
        return False, "unknown"
    if isinstance(val, ast.Call):
        fn = dotted(val.func) or ""
        if fn == "iter" or fn.split(".")[-1] in ("count", "cycle", "chain", "islice") or isinstance(val.func, ast.Attribute) and val.func.attr == "__iter__":
            return True, "an iterator object created once"
        k = prog.class_of_name(f.module, fn) if fn else None
        if k is not None:
            it, nx = prog.lookup_method(k, "__iter__"), prog.lookup_method(k, "__next__")
            if it is None:
                return False, f"an instance of {k.name}, which is not iterable"
            gen = any(isinstance(x, (ast.Yield, ast.YieldFrom)) for x in walk_scope(it.node))
            if gen:
                return False, f"an instance of {k.name}, whose __iter__ is a generator method (a fresh generator per iter() call)"
            rets = [r for r in walk_scope(it.node) if isinstance(r, ast.Return)]
            self_ret = bool(rets) and all(isinstance(r.value, ast.Name) and r.value.id == it.self_name for r in rets)
            if self_ret and nx is not None:
                return True, f"{k.name} implements the iterator protocol (__iter__ returns self, __next__ advances stored state)"
            if self_ret and nx is None:
                return False, f"an instance of {k.name}, whose __iter__ returns self but which has no __next__"
            return False, f"an instance of {k.name}, whose __iter__ returns a new iterator on each call"
        for t in prog.resolve_call(f, val):
            if isinstance(t, FuncInfo) and any(isinstance(x, (ast.Yield, ast.YieldFrom)) for x in walk_scope(t.node)):
                return True, f"the generator object returned by {t.name}()"
    if isinstance(val, (ast.List, ast.Tuple, ast.ListComp, ast.Set, ast.Dict)):
        return False, "a container (iteration restarts at its first element)"
    if isinstance(val, ast.GeneratorExp):
        return True, "a generator expression object"
    raise AnalysisError(f"{f.loc(val)}: cannot classify `{src(val)[:60]}` as a stateful iterator or a restartable iterable")
