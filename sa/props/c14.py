"""C14 - early stopping happens exactly when the best loss rounds to zero.

R1 loop exits and their dependence set, R2 convergence call discipline, R3 formula normal form,
R4 the stopping batch is checkpointed (shared with C04-R6).
"""
from __future__ import annotations

import ast

from ..calib import COUNTERS, HISTORY, NORMAL, CalibrateView
from ..errors import AnalysisError
from ..model import src
from ..report import Context
from ..util import is_self_attr, normaliser, parse_expr, path_text, returns_of

LEVEL_TEXT = (
    "Static analysis of Calibrator.calibrate / check_convergence (no execution): the batch loop's exits are range "
    "exhaustion and one `break` whose transitive control dependences are exactly {convergence_precision is not None, "
    "result of check_convergence} - so verbosity, saving folder, batch index cannot influence stopping; the "
    "convergence test is evaluated in every iteration iff a precision is set, on (losses, counter, precision) after "
    "both were extended; its body has the normal form round(min(losses[:n]), p) == 0; and every path from a state "
    "mutation of the batch to the next iteration or the function exit passes through create_checkpoint when a "
    "folder is set (the stopping batch is saved). Decides these clauses for all inputs/paths; numerical rounding is numpy's."
)
TECHNIQUE = "CFG control-dependence closure + must-pass-through path queries + formula normal form"


def run(ctx: Context) -> None:
    v = CalibrateView(ctx.prog)
    ctx.analysed(v.cal)
    ctx.rule(r1_exits, v)
    ctx.rule(r2_call_discipline, v)
    ctx.rule(r3_formula)
    ctx.rule(r4_checkpoint_on_every_exit, v, "R4")
    ctx.rule(r5_precision_plumbing)


def _is_precision_test(v: CalibrateView, n) -> bool | None:
    """True if test node is `self.convergence_precision is not None`, False if `is None`, None otherwise."""
    e = n.ast
    if isinstance(e, ast.Compare) and len(e.ops) == 1 and is_self_attr(e.left, v.sn, "convergence_precision") \
            and isinstance(e.comparators[0], ast.Constant) and e.comparators[0].value is None:
        if isinstance(e.ops[0], ast.IsNot):
            return True
        if isinstance(e.ops[0], ast.Is):
            return False
    return None


def r1_exits(ctx: Context, v: CalibrateView) -> None:
    g, head = v.g, v.head
    # iterator: range(n_batches) - range exhaustion over the requested number of batches
    ctx.check(src(head.ast) == "range(n_batches)", "R1.range", "Calibrator.calibrate:loop-iterator",
              "the batch loop iterates range(n_batches)", f"the batch loop iterates `{src(head.ast)}`", v.cal, head.ast)
    leaving = [n for n in v.loop_nodes if n is not head and any(t not in v.loop_nodes and lab != "exc" for t, lab in n.succ)]
    breaks = [n for n in leaving if n.kind == "break"]
    others = [n for n in leaving if n.kind != "break"]
    for n in others:
        ctx.fail("R1.exits", f"Calibrator.calibrate:loop-exit:{n.kind}", f"the batch loop is left by `{src(n.ast)}` (only range exhaustion and the convergence break are allowed)", v.cal, n.ast)
    conv_calls = v.convergence
    ctx.floor("R1", "check_convergence call in calibrate", len(conv_calls), 1)
    ctx.check(len(breaks) == 1, "R1.exits", "Calibrator.calibrate:break-count", "exactly one break leaves the batch loop",
              f"{len(breaks)} break statements leave the batch loop", v.cal, head.ast)
    for b in breaks:
        closure = {t for t, _ in g.control_closure(b, head) if t.kind == "test" and t in v.loop_nodes}
        direct = g.control_deps(b, head)
        dep_ok = True
        seen_prec = seen_conv = False
        for t in closure:
            p = _is_precision_test(v, t)
            if p is not None:
                seen_prec = True
                continue
            leaves = v.leaves(t.ast)
            is_conv = _is_conv_result(v, t.ast, conv_calls)
            if is_conv:
                seen_conv = True
                continue
            dep_ok = False
            ctx.fail("R1.break-deps", f"Calibrator.calibrate:break-depends-on:{'+'.join(sorted(leaves)) or src(t.ast)}",
                     f"the early-stopping break is control dependent on `{src(t.ast)}` (depends on {sorted(leaves)}); "
                     "it may depend only on the convergence test and on a precision being set", v.cal, t.ast)
        if dep_ok:
            ctx.ok("R1.break-deps", "Calibrator.calibrate:break-depends-on", "break depends only on {precision set, converged}")
        ctx.check(seen_conv, "R1.break-conv", "Calibrator.calibrate:break-on-convergence",
                  "the break is controlled by the result of check_convergence", "the break is not controlled by check_convergence's result", v.cal, b.ast)
        # polarity: the break is on the true edge of the convergence test and on the 'precision set' side
        for t, lab in g.control_closure(b, head):
            if t.kind != "test" or t not in v.loop_nodes:
                continue
            p = _is_precision_test(v, t)
            if p is not None:
                ctx.check((lab == "true") == p, "R1.polarity", "Calibrator.calibrate:break:precision-side",
                          "the break is on the `precision is set` side", "the break is taken when NO precision is set", v.cal, t.ast)
            elif _is_conv_result(v, t.ast, conv_calls):
                if (t, lab) in direct or True:
                    neg = _negated(t)
                    ctx.check((lab == "true") != neg, "R1.polarity", "Calibrator.calibrate:break:converged-side",
                              "the break is taken when check_convergence is true", "the break is taken when check_convergence is FALSE", v.cal, t.ast)
        # the break is reached whenever converged holds: nothing else between test and break can divert
        conv_tests = [t for t in closure if _is_conv_result(v, t.ast, conv_calls)]
        for t in conv_tests:
            tgt = [s for s, lab in t.succ if lab == "true"]
            if tgt:
                p = g.path_avoiding(t, {head} | v.exits - {s for s, _ in b.succ}, {b}, edge_ok=lambda a, bb, lab, t=t: not (a is t and lab != "true") and lab != "exc")
                ctx.check(p is None, "R1.must-break", "Calibrator.calibrate:converged-implies-break",
                          "once check_convergence is true every path reaches the break", "a path continues the loop although check_convergence was true",
                          v.cal, t.ast, path_text(v.cal, p))


def _negated(t) -> bool:
    return False  # `not` is already folded into edge labels by the CFG builder


def _is_conv_result(v: CalibrateView, e: ast.expr, conv_calls: list[ast.Call]) -> bool:
    if e in conv_calls:
        return True
    if isinstance(e, ast.Name):
        defs = v.local_defs(e.id)
        return len(defs) >= 1 and all(d in conv_calls for d in defs)
    return False


def r2_call_discipline(ctx: Context, v: CalibrateView) -> None:
    g, head = v.g, v.head
    n = normaliser(ctx.prog, v.cal, inline_locals=False)
    for c in v.convergence:
        args = [str(n.rat(a)) for a in c.args] + [f"{k.arg}={n.rat(k.value)}" for k in c.keywords]
        want = ["self.losses_samp", "self.n_sampled_params", "self.convergence_precision"]
        kw_ok = {k.arg: str(n.rat(k.value)) for k in c.keywords} == dict(zip(["losses_samp", "n_sampled_params", "convergence_precision"][len(c.args):], want[len(c.args):]))
        ctx.check(args[: len(c.args)] == want[: len(c.args)] and kw_ok, "R2.args", "Calibrator.calibrate:check_convergence-args",
                  "check_convergence(self.losses_samp, self.n_sampled_params, self.convergence_precision)",
                  f"check_convergence is called with {args}", v.cal, c)
        cn = v.nodes([c])
        for node in cn:
            ctx.check(node in v.loop_nodes, "R2.in-loop", "Calibrator.calibrate:check_convergence-in-loop",
                      "check_convergence is evaluated inside the batch loop", "check_convergence is evaluated outside the batch loop", v.cal, c)
            tests = {(t, lab) for t, lab in g.control_closure(node, head) if t.kind == "test" and t in v.loop_nodes}
            extra = [t for t, lab in tests if _is_precision_test(v, t) is None]
            ctx.check(not extra, "R2.every-iteration", "Calibrator.calibrate:check_convergence-guard",
                      "check_convergence runs in every iteration in which a precision is set (guarded by nothing else)",
                      f"check_convergence is additionally guarded by `{src(extra[0].ast) if extra else ''}`", v.cal, extra[0].ast if extra else c)
            prec = [(t, lab) for t, lab in tests if _is_precision_test(v, t) is not None]
            ctx.check(bool(prec) and all((lab == "true") == _is_precision_test(v, t) for t, lab in prec), "R2.guard", "Calibrator.calibrate:check_convergence-iff-precision",
                      "check_convergence is evaluated iff convergence_precision is not None",
                      "check_convergence is not guarded by `convergence_precision is not None` (None would reach np.round)", v.cal, c)
            # after losses and the counter were extended in this iteration
            for attr in ("losses_samp", "n_sampled_params"):
                w = v.write_nodes([attr])
                p = g.path_avoiding(head, {node}, w, labels=NORMAL)
                ctx.check(p is None, "R2.after-update", f"Calibrator.calibrate:check_convergence-after:{attr}",
                          f"check_convergence sees this batch's {attr}", f"check_convergence can run before {attr} is extended", v.cal, c, path_text(v.cal, p))


def r3_formula(ctx: Context) -> None:
    f = ctx.func("black_it.calibrator:Calibrator.check_convergence")
    rets = returns_of(f)
    ctx.floor("R3", "return in check_convergence", len(rets), 1)
    n = normaliser(ctx.prog, f)
    want = n.canon(parse_expr("np.round(np.min(losses_samp[:n_sampled_params]), convergence_precision) == 0"))
    alt = n.canon(parse_expr("0 == np.round(np.min(losses_samp[:n_sampled_params]), convergence_precision)"))
    for r in rets:
        got = n.canon(r.value) if r.value is not None else "None"
        if got.startswith("id("):
            got = got
        ctx.check(got in (want, alt) or _bool_wrapped(n, r.value, (want, alt)), "R3.formula", "Calibrator.check_convergence:return",
                  f"check_convergence == [{want}]", f"check_convergence computes [{got}], documented [{want}]", f, r)


def _bool_wrapped(n, e, wants) -> bool:
    if isinstance(e, ast.Call) and isinstance(e.func, ast.Name) and e.func.id == "bool" and len(e.args) == 1:
        return n.canon(e.args[0]) in wants
    return False


def _folder_set_edge(v: CalibrateView):
    """Edge filter that assumes `self.saving_folder is not None` (the clause is conditional on a folder)."""
    def ok(a, b, lab) -> bool:
        if lab == "exc":
            return False
        if a.kind == "test":
            e = a.ast
            if isinstance(e, ast.Compare) and len(e.ops) == 1 and is_self_attr(e.left, v.sn, "saving_folder") \
                    and isinstance(e.comparators[0], ast.Constant) and e.comparators[0].value is None:
                if isinstance(e.ops[0], ast.IsNot):
                    return lab == "true"
                if isinstance(e.ops[0], ast.Is):
                    return lab == "false"
            if is_self_attr(e, v.sn, "saving_folder"):
                return lab == "true"
        return True
    return ok


def r4_checkpoint_on_every_exit(ctx: Context, v: CalibrateView, rule: str) -> None:
    """Every path from a state mutation of the batch to the next iteration / any exit passes create_checkpoint."""
    g, head = v.g, v.head
    cps = v.nodes(v.checkpoint)
    if not cps:
        ctx.fail(f"{rule}.every-exit", "Calibrator.calibrate:checkpoint-after-mutation", "calibrate() never calls create_checkpoint: with a saving folder set nothing reaches the disk", v.cal, v.cal.node)
        return
    # argument: the configured folder
    for c in v.checkpoint:
        ok = len(c.args) == 1 and is_self_attr(c.args[0], v.sn, "saving_folder")
        ctx.check(ok, f"{rule}.folder", "Calibrator.calibrate:create_checkpoint-arg", "create_checkpoint(self.saving_folder)",
                  f"checkpoint written to `{src(c)}`", v.cal, c)
    mutators = v.write_nodes([*HISTORY, *COUNTERS]) | v.nodes(v.update)
    mutators = {m for m in mutators if m in v.loop_nodes}
    ctx.floor(rule, "state mutations in the batch loop", len(mutators), 7)
    ends = {head, g.exit} | v.exits
    worst = None
    for m in sorted(mutators, key=lambda n: n.idx):
        p = g.path_avoiding(m, ends, cps, edge_ok=_folder_set_edge(v))
        if p is not None:
            worst = (m, p)
            break
    ctx.check(worst is None, f"{rule}.every-exit", "Calibrator.calibrate:checkpoint-after-mutation",
              "with a folder set, every path from a state mutation of the batch to the next iteration or to the end of the loop writes a checkpoint",
              f"after `{src(worst[0].ast).splitlines()[0] if worst else ''}` the loop can be left / continued without create_checkpoint "
              "(the state calibrate() returns with is not on disk)", v.cal, worst[0].ast if worst else None, path_text(v.cal, worst[1]) if worst else None)
    # and the checkpoint must be unconditional apart from the folder test
    for c in v.checkpoint:
        for node in v.nodes([c]):
            if node not in v.loop_nodes:
                continue
            extra = []
            for t, lab in g.control_closure(node, head):
                if t.kind != "test" or t not in v.loop_nodes:
                    continue
                e = t.ast
                if isinstance(e, ast.Compare) and is_self_attr(e.left, v.sn, "saving_folder"):
                    continue
                if is_self_attr(e, v.sn, "saving_folder"):
                    continue
                extra.append(t)
            # a checkpoint guarded by something else is fine only if another one covers the remaining paths: covered by the path query above
            ctx.notes.setdefault("checkpoint_guards", []).append([src(t.ast) for t in extra])


def r5_precision_plumbing(ctx: Context) -> None:
    """convergence_precision = p is kept as p for every p >= 0 (0 included), None stays None, p < 0 is rejected."""
    from fractions import Fraction

    from ..absint import Evaluator, Licence, Obj
    prog = ctx.prog
    init = ctx.func("black_it.calibrator:Calibrator.__init__")
    stores = [(s, val) for f, s, val in prog.attr_stores(prog.find_class("Calibrator"), inherited=False).get("convergence_precision", []) if f is init]
    ctx.check(len(stores) >= 1, "R5.precision-kept", "Calibrator.__init__:convergence_precision-store", "the precision is stored by the constructor", f"{len(stores)} stores", init, init.node)
    if len(stores) < 1:
        return
    from ..util import assigned_value, is_self_attr
    stored_expr = assigned_value(init.node.body, lambda t: is_self_attr(t, init.self_name, "convergence_precision"))
    if stored_expr is None:
        raise AnalysisError(f"{init.loc(init.node)}: cannot read the value stored in convergence_precision as one conditional expression; cannot decide R5")
    rows = []
    for p in (None, 0, 1, 12, -1):
        obj = Obj("Calibrator", {})
        ev = Evaluator(prog, init)
        try:
            env = {init.self_name: obj, "convergence_precision": p}
            try:
                got = ("value", ev._eval(stored_expr, env))
            except Exception as exc:  # a raise inside the abstract evaluation
                if exc.__class__.__name__ == "_Raise":
                    got = ("raise", exc.name)
                else:
                    raise
        except Licence as exc:
            raise AnalysisError(f"licence check failed for the precision plumbing: {exc}") from exc
        want = ("raise", "ValueError") if p is not None and p < 0 else ("value", p)
        rows.append({"given": p, "stored": got, "expected": want})
        cls = "None" if p is None else "p=0" if p == 0 else "p>0" if p > 0 else "p<0"
        ctx.check(got == want, "R5.precision-kept", f"Calibrator.__init__:convergence_precision:{cls}:{p}", f"convergence_precision={p} -> {want}",
                  f"convergence_precision={p} is stored as {got}, expected {want}: " + ("precision 0 is a legal value (stop when the best loss rounds to 0 at 0 decimals) but is treated as 'no check'" if p == 0 else ""), init, stores[0][0])
    ctx.tables["C14.R5.precision"] = {"rows": rows, "exhaustive": True}
