"""C14 - early stopping happens exactly when the best loss rounds to zero.

R1 loop exits and their dependence set, R2 convergence call discipline, R3 formula normal form,
R4 the stopping batch is checkpointed (shared with C04-R6).
"""
from __future__ import annotations

import ast

from ..calib import COUNTERS, HISTORY, NORMAL, CalibrateView
from ..errors import AnalysisError
from ..model import src
from ..report import Context
from ..util import is_self_attr, normaliser, parse_expr, path_text, returns_of

LEVEL_TEXT = (
    "Static analysis of Calibrator.calibrate / check_convergence (no execution): one iteration of the batch loop is "
    "evaluated abstractly (sa/pathval.py: three-valued guard evaluation over the CFG, values followed through local flags, "
    "conditional expressions and inlined helpers, every other test forked) for each row of the truth table (precision "
    "set, check_convergence true): the loop is left early on every abstract path iff both hold - so verbosity, saving "
    "folder, batch index cannot influence stopping - and by nothing but that break; the convergence test is evaluated "
    "iff a precision is set, in every such iteration, on (losses, counter, precision) after both were extended; its body "
    "has the normal form round(min(losses[:n]), p) == 0; with a folder set every abstract path ends with a "
    "create_checkpoint after its last state mutation (the stopping batch is saved); the constructor keeps precision 0 "
    "as 0. Decides these clauses for all inputs/paths; numerical rounding is numpy's."
    ' The loss history the stopping test reads is written by the calibrator only: no in-place write through an alias lent to a sampler / loss / checkpoint writer (alias analysis of C02-R7 restricted to losses_samp).'
    ' The non-interference rule of C01 is included (verbosity reaches only prints; create_checkpoint changes no calibrator state, so the folder calibrate() writes to is the configured one).'
    " The field-plumbing rule of C04 kept to the history and the two progress counters is included (the stopping batch is part of the checkpoint as itself)."
    " The alignment rule of C02 is included (the convergence test reads losses_samp[:n_sampled_params])."
)
TECHNIQUE = "finite abstract evaluation of one loop iteration over a truth table of atoms (path-sensitive, three-valued) + event-order queries on the abstract paths + formula normal form"


def run(ctx: Context) -> None:
    v = CalibrateView(ctx.prog)
    ctx.analysed(v.cal)
    ctx.rule(r1_exits, v)
    ctx.rule(r2_call_discipline, v)
    ctx.rule(r3_formula)
    ctx.rule(r4_checkpoint_on_every_exit, v, "R4")
    ctx.rule(r5_precision_plumbing)
    # "the smallest loss found so far" is read from losses_samp: a sampler (or anything else the array is lent to) that rescales it in place
    # makes the loop stop on a value no batch ever produced (alias analysis shared with C02-R7, restricted to the loss history)
    from . import c02
    ctx.rule(c02.r7_lent_arrays, ("history.losses_samp",))
    # "does not depend on verbosity" and "the checkpoint holds the triggering batch": verbosity reaches only prints, create_checkpoint changes no calibrator state (C01-R7)
    from . import c01
    ctx.rule(c01.r7_non_interference, v)
    # the convergence test reads losses_samp[:n_sampled_params]: the counter and the arrays grow by the same number of rows every batch (alignment rule of C02)
    ctx.rule(c02.r2_aligned, v)
    # "... is part of the checkpoint": the history and the two progress counters written by the checkpoint after the stopping batch come back as themselves
    from . import c18
    ctx.rule(c18.restored_records_identity, ("current_batch_index", "n_sampled_params"))


def _is_precision_test(v: CalibrateView, n) -> bool | None:
    """True if test node is `self.convergence_precision is not None`, False if `is None`, None otherwise."""
    e = n.ast
    if isinstance(e, ast.Compare) and len(e.ops) == 1 and is_self_attr(e.left, v.sn, "convergence_precision") \
            and isinstance(e.comparators[0], ast.Constant) and e.comparators[0].value is None:
        if isinstance(e.ops[0], ast.IsNot):
            return True
        if isinstance(e.ops[0], ast.Is):
            return False
    return None


def r1_exits(ctx: Context, v: CalibrateView) -> None:
    """The batch loop is left early exactly when a precision is set and check_convergence(...) is true - whatever verbosity, the saving
    folder or anything else say.  Decided on the truth table of (precision set, converged): one iteration of the loop is evaluated
    abstractly for each row (sa/pathval.py), tests on anything else fork, and every resulting path must take the expected exit."""
    from ..calib import iteration_table
    head = v.head
    range_ok = src(head.ast) == "range(n_batches)"
    if not range_ok:
        # `enumerate(range(n_batches))`, `range(0, n_batches)`, ...: the trip count read through the canonical loop header
        from ..util import loop_binding
        try:
            _benv, counts_ = loop_binding(v.loop_stmt.target, v.loop_stmt.iter)
            range_ok = bool(counts_) and all(src(c_).replace(" ", "") in ("n_batches", "n_batches-0") for c_ in counts_)
        except (AnalysisError, AttributeError):
            range_ok = False
    ctx.check(range_ok, "R1.range", "Calibrator.calibrate:loop-iterator",
              "the batch loop iterates range(n_batches)", f"the batch loop iterates `{src(head.ast)}`", v.cal, head.ast)
    ctx.floor("R1", "check_convergence call in calibrate", len(v.convergence), 1)
    rows = []
    n_paths = 0
    for P in (True, False):
        for C in (True, False):
            paths = iteration_table(v, {"P": P, "C": C})
            n_paths += len(paths)
            want_break = P and C
            outcomes = sorted({p.outcome for p in paths})
            rows.append({"precision_set": P, "converged": C, "paths": len(paths), "outcomes": outcomes, "expected": "break" if want_break else "continue"})
            for p in paths:
                if p.outcome in ("return", "raise", "leave", "end"):
                    ctx.fail("R1.exits", f"Calibrator.calibrate:loop-exit:{p.outcome}", f"with precision {'set' if P else 'None'} and converged={C} the batch loop is left by a `{p.outcome}` "
                             f"(only range exhaustion and the convergence break are allowed); path guesses: {list(p.forks)[:4]}", v.cal, head.ast, [f"{k} L{ln}" for k, ln in p.where[-12:]])
                    break
            bad = [p for p in paths if (p.outcome == "break") != want_break and p.outcome in ("break", "continue")]
            if bad:
                p = bad[0]
                if want_break:
                    deps = sorted(set(p.forks))
                    ctx.fail("R1.must-break", "Calibrator.calibrate:converged-implies-break", "a precision is set and check_convergence is true, yet an iteration can go on to the next batch"
                             + (f" - depending on {deps[:3]}" if deps else ""), v.cal, head.ast, [f"{k} L{ln}" for k, ln in p.where[-14:]])
                else:
                    deps = sorted(set(p.forks))
                    what = "no precision is set" if not P else "check_convergence is false"
                    ctx.fail("R1.break-deps", f"Calibrator.calibrate:break-depends-on:{'+'.join(d[:40] for d in deps[:2]) or 'nothing'}", f"the batch loop is left early although {what}"
                             + (f" - the break depends on {deps[:3]}" if deps else ""), v.cal, head.ast, [f"{k} L{ln}" for k, ln in p.where[-14:]])
            else:
                ctx.ok("R1.table", f"Calibrator.calibrate:precision={'set' if P else 'None'}:converged={C}", f"{len(paths)} abstract path(s): all {'break' if want_break else 'continue'}")
            # R2: the convergence test is evaluated iff a precision is set, once per iteration, after this batch's losses and counter were recorded
            for p in paths:
                n_conv = p.events.count("conv")
                if not P and n_conv:
                    ctx.fail("R2.guard", "Calibrator.calibrate:check_convergence-iff-precision", "check_convergence is evaluated although convergence_precision is None (None would reach np.round)",
                             v.cal, v.convergence[0], [f"{k} L{ln}" for k, ln in p.where[-14:]])
                    break
                if P and n_conv == 0:
                    deps = sorted(set(p.forks))
                    ctx.fail("R2.every-iteration", "Calibrator.calibrate:check_convergence-guard", "a precision is set, yet an iteration can end without evaluating check_convergence"
                             + (f" - it is additionally guarded by {deps[:3]}" if deps else ""), v.cal, v.convergence[0], [f"{k} L{ln}" for k, ln in p.where[-14:]])
                    break
                if P and n_conv:
                    first = p.events.index("conv")
                    for attr in ("losses_samp", "n_sampled_params"):
                        if f"write:{attr}" not in p.events[:first]:
                            ctx.fail("R2.after-update", f"Calibrator.calibrate:check_convergence-after:{attr}", f"check_convergence can run before {attr} is extended with this batch", v.cal, v.convergence[0],
                                     [f"{k} L{ln}" for k, ln in p.where[-14:]])
                            break
                    else:
                        continue
                    break
    ctx.tables["C14.R1.truth_table"] = {"rows": rows, "exhaustive": True, "atoms": ["convergence_precision is not None", "check_convergence(...)"], "forked_on": "every other test"}
    ctx.notes["abstract_paths"] = n_paths
    if not any(f.rule.startswith("R2") for f in ctx.findings):
        ctx.ok("R2.discipline", "Calibrator.calibrate:check_convergence-discipline", "check_convergence is evaluated iff a precision is set, in every such iteration, after losses and counter were extended")


def r2_call_discipline(ctx: Context, v: CalibrateView) -> None:
    n = normaliser(ctx.prog, v.cal, inline_locals=True)  # `precision = self.convergence_precision` held in a local reads as the attribute
    for c in v.convergence:
        args = [str(n.rat(a)) for a in c.args] + [f"{k.arg}={n.rat(k.value)}" for k in c.keywords]
        want = ["self.losses_samp", "self.n_sampled_params", "self.convergence_precision"]
        kw_ok = {k.arg: str(n.rat(k.value)) for k in c.keywords} == dict(zip(["losses_samp", "n_sampled_params", "convergence_precision"][len(c.args):], want[len(c.args):]))
        ctx.check(args[: len(c.args)] == want[: len(c.args)] and kw_ok, "R2.args", "Calibrator.calibrate:check_convergence-args",
                  "check_convergence(self.losses_samp, self.n_sampled_params, self.convergence_precision)",
                  f"check_convergence is called with {args}", v.cal, c)
        ctx.check(v.in_loop(c), "R2.in-loop", "Calibrator.calibrate:check_convergence-in-loop",
                  "check_convergence is evaluated inside the batch loop", "check_convergence is evaluated outside the batch loop", v.cal, c)


def r3_formula(ctx: Context) -> None:
    f = ctx.func("black_it.calibrator:Calibrator.check_convergence")
    rets = returns_of(f)
    ctx.floor("R3", "return in check_convergence", len(rets), 1)
    n = normaliser(ctx.prog, f)
    want = n.canon(parse_expr("np.round(np.min(losses_samp[:n_sampled_params]), convergence_precision) == 0"))
    alt = n.canon(parse_expr("0 == np.round(np.min(losses_samp[:n_sampled_params]), convergence_precision)"))
    for r in rets:
        got = n.canon(r.value) if r.value is not None else "None"
        if got.startswith("id("):
            got = got
        ctx.check(got in (want, alt) or _bool_wrapped(n, r.value, (want, alt)), "R3.formula", "Calibrator.check_convergence:return",
                  f"check_convergence == [{want}]", f"check_convergence computes [{got}], documented [{want}]", f, r)


def _bool_wrapped(n, e, wants) -> bool:
    if isinstance(e, ast.Call) and isinstance(e.func, ast.Name) and e.func.id == "bool" and len(e.args) == 1:
        return n.canon(e.args[0]) in wants
    return False


def _folder_set_edge(v: CalibrateView):
    """Edge filter that assumes `self.saving_folder is not None` (the clause is conditional on a folder)."""
    def ok(a, b, lab) -> bool:
        if lab == "exc":
            return False
        if a.kind == "test":
            e = a.ast
            if isinstance(e, ast.Compare) and len(e.ops) == 1 and is_self_attr(e.left, v.sn, "saving_folder") \
                    and isinstance(e.comparators[0], ast.Constant) and e.comparators[0].value is None:
                if isinstance(e.ops[0], ast.IsNot):
                    return lab == "true"
                if isinstance(e.ops[0], ast.Is):
                    return lab == "false"
            if is_self_attr(e, v.sn, "saving_folder"):
                return lab == "true"
        return True
    return ok


def r4_checkpoint_on_every_exit(ctx: Context, v: CalibrateView, rule: str) -> None:
    """Every path from a state mutation of the batch to the next iteration / any exit passes create_checkpoint."""
    g, head = v.g, v.head
    cps = v.nodes(v.checkpoint)
    if not cps:
        ctx.fail(f"{rule}.every-exit", "Calibrator.calibrate:checkpoint-after-mutation", "calibrate() never calls create_checkpoint: with a saving folder set nothing reaches the disk", v.cal, v.cal.node)
        return
    # argument: the configured folder
    for c in v.checkpoint:
        ok = len(c.args) == 1 and is_self_attr(c.args[0], v.sn, "saving_folder")
        ctx.check(ok, f"{rule}.folder", "Calibrator.calibrate:create_checkpoint-arg", "create_checkpoint(self.saving_folder)",
                  f"checkpoint written to `{src(c)}`", v.cal, c)
    # Abstract evaluation of one iteration with a folder set (S true), for every row of (precision set, converged): on every path the last
    # state mutation of the batch (history / counter write, scheduler.update) is followed by create_checkpoint before the iteration ends.
    from ..calib import iteration_table
    n_mut = len({id(s_) for a in [*HISTORY, *COUNTERS] for s_ in v.writes[a] if v.in_loop(s_)}) + len([c for c in v.update if v.in_loop(c)])
    ctx.floor(rule, "state mutations in the batch loop", n_mut, 7)
    worst = None
    n_paths = 0
    for P in (True, False):
        for C in (True, False):
            for p in iteration_table(v, {"P": P, "C": C, "S": True}):
                n_paths += 1
                muts = [i for i, e in enumerate(p.events) if e.startswith("write:") or e == "update"]
                cps_ = [i for i, e in enumerate(p.events) if e == "checkpoint"]
                if muts and (not cps_ or cps_[-1] < muts[-1]) and worst is None:
                    worst = (p, p.events[muts[-1]], P, C)
    ctx.notes[f"{rule}.abstract_paths"] = n_paths
    ctx.check(worst is None, f"{rule}.every-exit", "Calibrator.calibrate:checkpoint-after-mutation",
              "with a folder set, every path from a state mutation of the batch to the next iteration or to the end of the loop writes a checkpoint",
              (f"with a folder set (precision {'set' if worst[2] else 'None'}, converged={worst[3]}) an iteration ends by `{worst[0].outcome}` after `{worst[1]}` without a later create_checkpoint"
               + (f" - depending on {sorted(set(worst[0].forks))[:3]}" if worst[0].forks else "") + ": the state calibrate() returns with is not on disk") if worst else "",
              v.cal, v.checkpoint[0], [f"{k} L{ln}" for k, ln in worst[0].where[-14:]] if worst else None)


def r5_precision_plumbing(ctx: Context) -> None:
    """convergence_precision = p is kept as p for every p >= 0 (0 included), None stays None, p < 0 is rejected."""
    from fractions import Fraction

    from ..absint import Evaluator, Licence, Obj
    prog = ctx.prog
    init = ctx.func("black_it.calibrator:Calibrator.__init__")
    stores = [(s, val) for f, s, val in prog.attr_stores(prog.find_class("Calibrator"), inherited=False).get("convergence_precision", []) if f is init]
    ctx.check(len(stores) >= 1, "R5.precision-kept", "Calibrator.__init__:convergence_precision-store", "the precision is stored by the constructor", f"{len(stores)} stores", init, init.node)
    if len(stores) < 1:
        return
    from ..util import assigned_value, is_self_attr
    stored_expr = assigned_value(init.node.body, lambda t: is_self_attr(t, init.self_name, "convergence_precision"))
    if stored_expr is None:
        raise AnalysisError(f"{init.loc(init.node)}: cannot read the value stored in convergence_precision as one conditional expression; cannot decide R5")
    rows = []
    for p in (None, 0, 1, 12, -1):
        obj = Obj("Calibrator", {})
        ev = Evaluator(prog, init)
        try:
            env = {init.self_name: obj, "convergence_precision": p}
            try:
                got = ("value", ev._eval(stored_expr, env))
            except Exception as exc:  # a raise inside the abstract evaluation
                if exc.__class__.__name__ == "_Raise":
                    got = ("raise", exc.name)
                else:
                    raise
        except Licence as exc:
            raise AnalysisError(f"licence check failed for the precision plumbing: {exc}") from exc
        want = ("raise", "ValueError") if p is not None and p < 0 else ("value", p)
        rows.append({"given": p, "stored": got, "expected": want})
        cls = "None" if p is None else "p=0" if p == 0 else "p>0" if p > 0 else "p<0"
        ctx.check(got == want, "R5.precision-kept", f"Calibrator.__init__:convergence_precision:{cls}:{p}", f"convergence_precision={p} -> {want}",
                  f"convergence_precision={p} is stored as {got}, expected {want}: " + ("precision 0 is a legal value (stop when the best loss rounds to 0 at 0 decimals) but is treated as 'no check'" if p == 0 else ""), init, stores[0][0])
    ctx.tables["C14.R5.precision"] = {"rows": rows, "exhaustive": True}
