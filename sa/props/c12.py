"""C12 - deduplication replaces only repeated points and gives up only after its passes."""
from __future__ import annotations

import ast

from ..absint import Evaluator
from ..cfg import CFG
from ..errors import AnalysisError
from ..model import FuncInfo, dotted, src, walk_scope
from ..report import Context
from ..util import calls_in, kwarg, node_for, normaliser, parse_expr, path_text, reaching_events, returns_of

LEVEL_TEXT = (
    "Static analysis of BaseSampler.sample / find_and_get_duplicates (no execution): argument forwarding of the first "
    "draw, loop bound range(max_deduplication_passes), repeats computed from find_and_get_duplicates(current samples, "
    "history) with roles matching the callee (returned positions index its first parameter), redraw size = len(repeats) "
    "by normal form, the only store into the batch is samples[repeats] = redraw (reaching definitions), the only early "
    "exit is control-dependent exactly on len(repeats) == 0, dominance order find -> redraw -> substitute in every pass; "
    "in the finder: unique over the concatenation of both arrays along axis 0 with counts, groups kept iff count >= 2 "
    "(comparator evaluated on the order classes of count vs 2), positions are rows of new_points equal on all "
    "coordinates. Decides these clauses for all histories and draws; numpy.unique's own semantics are trusted."
    ' (D8) every concrete sample_batch returns storage allocated during the call (not a view of a work array the sampler keeps): sample() substitutes repeats in place, so an aliased redraw would overwrite points that were not repeats.'
    ' (D4) the history / search-space parameters of sample() are never re-bound and reach both draws as passed; (D9) every sampler constructor forwards its arguments to the base-class parameters of the same name (the pass budget the user set is the one used).'
)
TECHNIQUE = "normal forms + CFG dominance/control dependence + reaching definitions"

SAMPLE = "black_it.samplers.base:BaseSampler.sample"
FINDER = "black_it.samplers.base:BaseSampler.find_and_get_duplicates"


def run(ctx: Context) -> None:
    ctx.rule(sample_rules)
    ctx.rule(finder_rules)
    ctx.rule(stateless_rule)
    ctx.rule(fresh_batch_rule)
    ctx.rule(budget_plumbing)


def sample_rules(ctx: Context) -> None:
    from ..util import require_readable
    require_readable(ctx.prog, ctx.prog.func(SAMPLE))
    prog = ctx.prog
    f = ctx.func(SAMPLE)
    g = CFG(f.node)
    n = normaliser(prog, f)
    nn = normaliser(prog, f, inline_locals=False)
    sb_calls = [c for c in calls_in(f.node) if any(isinstance(t, FuncInfo) and t.name == "sample_batch" for t in prog.resolve_call(f, c))]
    ctx.floor("D1", "sample_batch calls in BaseSampler.sample", len(sb_calls), 2)
    loops = [s for s in walk_scope(f.node) if isinstance(s, ast.For)]
    ctx.floor("D2", "deduplication loop", len(loops), 1)
    loop = loops[0]
    in_loop = lambda x: any(y is x for y in ast.walk(loop))  # noqa: E731
    first = [c for c in sb_calls if not in_loop(c)]
    redraw = [c for c in sb_calls if in_loop(c)]
    ctx.check(len(first) == 1 and len(redraw) == 1, "D1.calls", "BaseSampler.sample:sample_batch-calls",
              "one first draw before the loop and one redraw inside it", f"{len(first)} draws before and {len(redraw)} inside the loop", f, f.node)
    if not first or not redraw:
        return
    # D1: first draw
    a = [str(nn.rat(x)) for x in first[0].args] + [f"{k.arg}={nn.rat(k.value)}" for k in first[0].keywords]
    ctx.check(a == ["self.batch_size", "search_space", "existing_points", "existing_losses"], "D1.first-draw", "BaseSampler.sample:first-draw-args",
              "first draw: sample_batch(self.batch_size, search_space, existing_points, existing_losses)", f"first draw called with {a}", f, first[0])
    # which local holds the batch
    batch_names = [t.id for s in walk_scope(f.node) if isinstance(s, (ast.Assign, ast.AnnAssign)) and s.value is first[0]
                   for t in ([s.target] if isinstance(s, ast.AnnAssign) else s.targets) if isinstance(t, ast.Name)]
    if not batch_names:
        raise AnalysisError("cannot find the local holding the first draw in BaseSampler.sample")
    batch = batch_names[0]
    # D2: loop bound
    ctx.check(str(nn.rat(loop.iter)) == str(nn.rat(parse_expr("range(self.max_deduplication_passes)"))), "D2.bound", "BaseSampler.sample:loop-bound",
              "at most max_deduplication_passes passes", f"deduplication loop iterates `{src(loop.iter)}`", f, loop)
    # D3: repeats from the finder on (current batch, history)
    finds = [c for c in calls_in(loop) if any(isinstance(t, FuncInfo) and t.qualname == FINDER for t in prog.resolve_call(f, c))]
    ctx.floor("D3", "find_and_get_duplicates call in the loop", len(finds), 1)
    fa = [src(x) for x in finds[0].args] + [f"{k.arg}={src(k.value)}" for k in finds[0].keywords]
    ctx.check(fa in ([batch, "existing_points"], [f"new_points={batch}", "existing_points=existing_points"]), "D3.finder-args", "BaseSampler.sample:finder-args",
              f"repeats = find_and_get_duplicates({batch}, existing_points)", f"finder called with {fa}", f, finds[0])
    dup_names = [t.id for s in ast.walk(loop) if isinstance(s, (ast.Assign, ast.AnnAssign)) and s.value is finds[0]
                 for t in ([s.target] if isinstance(s, ast.AnnAssign) else s.targets) if isinstance(t, ast.Name)]
    dup = dup_names[0] if dup_names else None
    ctx.check(dup is not None, "D3.finder-args", "BaseSampler.sample:finder-result", "the finder's result is kept in a local", "finder result not stored", f, finds[0])
    find_text = str(n.rat(finds[0]))
    # D4: redraw size
    ra = [str(n.rat(x)) for x in redraw[0].args]
    want_n = f"len({find_text})"
    ctx.check(len(ra) == 4 and ra[0] == want_n and ra[1:] == ["search_space", "existing_points", "existing_losses"], "D4.redraw-size", "BaseSampler.sample:redraw-args",
              "redraw: sample_batch(len(repeats), search_space, existing_points, existing_losses)",
              f"redraw called with {[r.replace(find_text, '<repeats>') for r in ra]}", f, redraw[0])
    # what the generator is handed is what sample() was handed: the history / search-space parameters are never re-bound (a snapped, filtered or
    # de-duplicated copy of the history would reach the redraws - and the surrogates' training - under the old name)
    for prm in ("search_space", "existing_points", "existing_losses"):
        if prm in f.params:
            reb = [x for x in ast.walk(f.node) if isinstance(x, ast.Name) and x.id == prm and isinstance(x.ctx, ast.Store)]
            ctx.check(not reb, "D4.history-args", f"BaseSampler.sample:{prm}:not-rebound", f"`{prm}` reaches sample_batch as it was passed in",
                      f"`{prm}` is re-bound inside sample() (`{src(getattr(reb[0], '_parent', reb[0]))[:70] if reb else ''}`): the draws and redraws are then computed from something other than "
                      "the history the caller passed", f, getattr(reb[0], "_parent", reb[0]) if reb else f.node)
    fa0 = [str(n.rat(x)) for x in first[0].args]
    ctx.check(len(fa0) == 4 and fa0[1:] == ["search_space", "existing_points", "existing_losses"], "D4.history-args", "BaseSampler.sample:first-draw-args",
              "first draw: sample_batch(batch_size, search_space, existing_points, existing_losses)", f"first draw called with {fa0}", f, first[0])
    # D5: only store into the batch
    rets = returns_of(f)
    for r in rets:
        ctx.check(isinstance(r.value, ast.Name) and r.value.id == batch, "D5.return", "BaseSampler.sample:return", f"returns the batch `{batch}`",
                  f"returns `{src(r.value)}` instead of the deduplicated batch", f, r)
        rn = g.nodes_of(r)[0]
        evs = reaching_events(g, batch, rn)
        kinds = sorted(k for _, k, _ in evs)
        subs = [a_ for _, k, a_ in evs if k == "sub"]
        others = [(k, a_) for _, k, a_ in evs if k not in ("assign", "sub")]
        assigns = [a_ for _, k, a_ in evs if k == "assign"]
        ctx.check(not others and len(assigns) == 1 and assigns[0].value is first[0], "D5.only-store", "BaseSampler.sample:batch-definitions",  # type: ignore[union-attr]
                  "the batch is the first draw, modified only by the substitution store",
                  f"the batch is also defined/modified by {[(k, src(x)[:50]) for k, x in others] or [src(x)[:50] for x in assigns]}", f, r)
        ctx.check(len(subs) == 1, "D5.only-store", "BaseSampler.sample:substitution-count", "exactly one substitution store", f"{len(subs)} subscript stores into the batch", f, r)
        for s in subs:
            t = s.targets[0]  # type: ignore[union-attr]
            redraw_names = [x.id for st in ast.walk(loop) if isinstance(st, (ast.Assign, ast.AnnAssign)) and st.value is redraw[0]
                            for x in ([st.target] if isinstance(st, ast.AnnAssign) else st.targets) if isinstance(x, ast.Name)]
            v_ok = s.value is redraw[0] or (isinstance(s.value, ast.Name) and s.value.id in redraw_names)  # type: ignore[union-attr]
            ctx.check(src(t.slice) == dup and v_ok, "D5.substitution", "BaseSampler.sample:substitution",
                      f"{batch}[repeats] = redraw: exactly the repeated rows are replaced by the redrawn ones",
                      f"substitution is `{src(s)}`", f, s)
    # D6: the only early exit
    head = [x for x in g.live if x.kind == "for" and x.stmt is loop][0]
    brks = [x for x in g.live if x.kind == "break"]
    rets_in_loop = [r for r in rets if in_loop(r)]
    # `return <the batch>` inside the loop is the same early exit as `break` followed by the final `return <the batch>`
    same_value_rets = [r for r in rets_in_loop if isinstance(r.value, ast.Name) and r.value.id == batch and all(isinstance(q.value, ast.Name) and q.value.id == batch for q in rets)]
    early = brks + [x for r in same_value_rets for x in g.nodes_of(r)]
    ctx.check(len(early) == 1 and len(same_value_rets) == len(rets_in_loop), "D6.exits", "BaseSampler.sample:loop-exits", "one early exit (break, or return of the batch) inside the loop",
              f"{len(brks)} breaks and {len(rets_in_loop)} returns inside the loop", f, loop)
    brks = early
    zero_forms = {n.canon(parse_expr(t)) for t in (f"len({dup}) == 0", f"0 == len({dup})", f"len({dup}) < 1", f"len({dup}) <= 0")} if dup else set()
    count_form = n.canon(parse_expr(f"len({dup})")) if dup else None
    for b in brks:
        deps = {(t, lab) for t, lab in g.control_closure(b, head) if t.kind == "test"}
        ok = len(deps) == 1
        for t, lab in deps:
            canon = n.canon(t.ast)
            is_zero = canon in zero_forms
            is_not = (isinstance(t.ast, ast.Name) and t.ast.id == dup) or (dup is not None and canon == count_form)  # `if not duplicates` / `if not len(duplicates)`: false edge
            good = (is_zero and lab == "true") or (is_not and lab == "false")
            if not good and dup is not None:
                good = _exit_iff_empty(prog, f, t.ast, lab, dup)
            ok = ok and good
        ctx.check(ok, "D6.break-iff-empty", "BaseSampler.sample:break-condition", "the loop is left early iff no repeats were found",
                  f"the early exit is controlled by {[(src(t.ast), lab) for t, lab in deps]}", f, b.ast)
    # order inside a pass: find -> redraw -> substitute
    fn = {x for c in finds for x in node_for(g, c)}
    rn_ = {x for c in redraw for x in node_for(g, c)}
    p1 = g.path_avoiding(head, rn_, fn, labels={"loop", "next", "true", "false"})
    ctx.check(p1 is None, "D3.order", "BaseSampler.sample:find-before-redraw", "repeats are computed before each redraw",
              "a redraw can happen without a preceding duplicate search in the same pass", f, loop, path_text(f, p1))
    # the redraw and substitution happen in every pass that found repeats: not guarded by anything else
    for c in redraw:
        for x in node_for(g, c):
            deps = {(t, lab) for t, lab in g.control_closure(x, head) if t.kind == "test"}
            ok = all(n.canon(t.ast) in zero_forms or (isinstance(t.ast, ast.Name) and t.ast.id == dup) or n.canon(t.ast) == count_form
                     or (dup is not None and (_exit_iff_empty(prog, f, t.ast, "true", dup) or _exit_iff_empty(prog, f, t.ast, "false", dup))) for t, _ in deps)
            ctx.check(ok, "D4.every-pass", "BaseSampler.sample:redraw-guard", "a pass with repeats always redraws",
                      f"the redraw is additionally guarded by {[src(t.ast) for t, _ in deps]}", f, c)


def _exit_iff_empty(prog, f: FuncInfo, test: ast.expr, label: str, dup: str) -> bool:
    """The branch `label` of `test` is taken exactly when the list of repeats is empty - decided by evaluating the test on the two order classes
    (no repeat / some repeats), with locals bound once to len(<repeats>) read as the count."""
    counts = [t.id for s_ in walk_scope(f.node) if isinstance(s_, (ast.Assign, ast.AnnAssign)) and s_.value is not None and src(s_.value).replace(" ", "") == f"len({dup})"
              for t in ([s_.target] if isinstance(s_, ast.AnnAssign) else s_.targets) if isinstance(t, ast.Name)]
    names = {x.id for x in ast.walk(test) if isinstance(x, ast.Name)} - {"len"}
    if not names or not names <= {dup, *counts}:
        return False
    try:
        empty = bool(Evaluator(prog, f)._eval(test, {dup: [], **{c: 0 for c in counts}}))
        one = bool(Evaluator(prog, f)._eval(test, {dup: [0], **{c: 1 for c in counts}}))
        three = bool(Evaluator(prog, f)._eval(test, {dup: [0, 1, 2], **{c: 3 for c in counts}}))
    except AnalysisError:
        return False
    want = label == "true"
    return empty == want and one != want and three != want


def finder_rules(ctx: Context) -> None:
    prog = ctx.prog
    f = ctx.func(FINDER)
    from ..util import require_readable
    require_readable(prog, f)
    if f.params[:2] != ["new_points", "existing_points"]:
        raise AnalysisError(f"anchor vanished: find_and_get_duplicates(new_points, existing_points), got {f.params}")
    n = normaliser(prog, f)
    uniq = [c for c in calls_in(f.node) if (dotted(c.func) or "").split(".")[-1] == "unique"]
    ctx.floor("D7", "np.unique call in the finder", len(uniq), 1)
    u = uniq[0]
    arg = str(n.rat(u.args[0])) if u.args else ""
    cat_ok = arg in {str(n.rat(parse_expr(t))) for t in (
        "np.concatenate((existing_points, new_points))", "np.concatenate((new_points, existing_points))",
        "np.concatenate((existing_points, new_points), axis=0)", "np.concatenate((new_points, existing_points), axis=0)",
        "np.vstack((existing_points, new_points))", "np.vstack((new_points, existing_points))",
        "np.concatenate([existing_points, new_points])", "np.concatenate([new_points, existing_points])")}
    ctx.check(cat_ok, "D7.pool", "find_and_get_duplicates:unique-input", "rows are counted over history + batch together",
              f"np.unique runs over `{src(u.args[0]) if u.args else '?'}` (normal form {arg[:80]})", f, u)
    ax = kwarg(u, "axis")
    rc = kwarg(u, "return_counts")
    ctx.check(isinstance(ax, ast.Constant) and ax.value == 0 and isinstance(rc, ast.Constant) and rc.value is True, "D7.pool", "find_and_get_duplicates:unique-options",
              "np.unique(..., axis=0, return_counts=True): whole rows are compared", f"np.unique options: {src(u)}", f, u)
    # threshold: kept iff count >= 2
    cnt = None
    for s in walk_scope(f.node):
        if isinstance(s, ast.Assign) and s.value is u and isinstance(s.targets[0], ast.Tuple) and len(s.targets[0].elts) == 2:
            unq_name, cnt = (src(x) for x in s.targets[0].elts)
    if cnt is None:
        raise AnalysisError("cannot find (unique rows, counts) unpacking in find_and_get_duplicates")
    masks = [s for s in ast.walk(f.node) if isinstance(s, ast.Subscript) and src(s.value) == unq_name and isinstance(s.slice, ast.Compare)]
    ctx.floor("D7", "count mask in the finder", len(masks), 1)
    cmp = masks[0].slice
    table = []
    ok = len(cmp.ops) == 1
    if ok:
        for c_val in (1, 2, 3):
            env = {cnt: c_val}
            try:
                got = Evaluator(prog, f)._eval(cmp, env)  # the checker's own guard evaluator on the order classes of count vs 2
            except AnalysisError:
                ok = False
                break
            table.append({"count": c_val, "kept": bool(got), "expected": c_val >= 2})
            ok = ok and bool(got) == (c_val >= 2)
    ok = ok and {x.id for x in ast.walk(cmp) if isinstance(x, ast.Name)} == {cnt}
    ctx.check(ok, "D7.threshold", "find_and_get_duplicates:count-threshold", "a row is a repeat iff it occurs at least twice (order classes count<2, =2, >2)",
              f"repeat threshold is `{src(cmp)}`: {table}", f, cmp)
    ctx.tables["C12.D7.threshold"] = {"rows": table, "exhaustive": True}
    # positions: rows of new_points equal on all coordinates
    aw = [c for c in calls_in(f.node) if (dotted(c.func) or "").split(".")[-1] in ("argwhere", "where", "nonzero", "flatnonzero")]
    ctx.floor("D7", "position search in the finder", len(aw), 1)
    inner = aw[0].args[0] if aw[0].args else None
    ok = isinstance(inner, ast.Call) and (dotted(inner.func) or "").split(".")[-1] == "all" and isinstance(kwarg(inner, "axis", 1), ast.Constant) and kwarg(inner, "axis", 1).value == 1 \
        and isinstance(inner.args[0], ast.Compare) and isinstance(inner.args[0].ops[0], ast.Eq) and "new_points" in (src(inner.args[0].left), src(inner.args[0].comparators[0]))
    ctx.check(ok, "D7.positions", "find_and_get_duplicates:positions", "positions are the rows of new_points equal to a repeated row on all coordinates",
              f"positions computed by `{src(aw[0])}`", f, aw[0])
    # groups iterated are the repeated ones
    groups_names = {t.id for s_ in walk_scope(f.node) if isinstance(s_, (ast.Assign, ast.AnnAssign)) and s_.value is not None and any(x is masks[0] for x in ast.walk(s_.value))
                    for t in ([s_.target] if isinstance(s_, ast.AnnAssign) else s_.targets) if isinstance(t, ast.Name)}
    gcf = CFG(f.node)
    for r in returns_of(f):
        # the collected positions, held in a local or written as the comprehension that collects them
        ok = isinstance(r.value, ast.Name) or any(x is aw[0] for x in ast.walk(r.value))
        if not ok and isinstance(r.value, (ast.List, ast.Tuple)) and not r.value.elts and groups_names:
            # `return []` on the path where no row is repeated: an empty list of positions is the list of positions
            deps = [(t_, lab) for t_, lab in gcf.control_closure(gcf.nodes_of(r)[0]) if t_.kind == "test"]
            if len(deps) == 1 and {x.id for x in ast.walk(deps[0][0].ast) if isinstance(x, ast.Name)} - {"len", "np"} <= groups_names:
                gname = sorted(groups_names)[0]
                try:
                    # witnesses: no repeated group at all / one repeated group whose coordinates are all zero (the origin is a legitimate grid point: a
                    # guard on the *content* of the groups, such as `.any()`, mistakes it for "no repeats")
                    from ..absint import Vec
                    t_empty = bool(Evaluator(prog, f)._eval(deps[0][0].ast, {gname: Vec([])}))
                    t_some = bool(Evaluator(prog, f)._eval(deps[0][0].ast, {gname: Vec([0])}))
                except AnalysisError:
                    raise AnalysisError(f"{f.loc(r)}: cannot read the guard `{src(deps[0][0].ast)}` of the early `return []` in the duplicate finder") from None
                taken_when_true = deps[0][1] == "true"
                ok = (t_empty == taken_when_true) and (t_some != taken_when_true)
        ctx.check(ok, "D7.return", "find_and_get_duplicates:return", "returns the list of positions", f"returns `{src(r.value)}`", f, r)


def stateless_rule(ctx: Context) -> None:
    """sample() and the duplicate finder are functions of (history, draws): no cache of earlier histories on the sampler / module."""
    prog = ctx.prog
    base = prog.find_class("BaseSampler")
    reach = []
    work = [ctx.func(SAMPLE), ctx.func(FINDER)]
    while work:
        f = work.pop()
        if f in reach:
            continue
        reach.append(f)
        for c in calls_in(f.node, scope_only=False):
            for t in prog.resolve_call(f, c):
                if isinstance(t, FuncInfo) and t not in reach and t.name != "sample_batch" and (t.cls is base or t.module.name in ("black_it.samplers.base", "black_it.utils.base")) and "abstractmethod" not in t.decorators:
                    work.append(t)
                elif isinstance(t, str) and t.startswith("black_it.") and t in prog.classes:
                    k = prog.classes[t]
                    work.extend(m for m in prog.methods_of(k) if m not in reach)
        # classes instantiated by the dedup layer (helper indexes)
        for c in calls_in(f.node, scope_only=False):
            k = prog.class_of_name(f.module, dotted(c.func) or "")
            if k is not None and k.module.name in ("black_it.samplers.base", "black_it.utils.base"):
                work.extend(m for m in prog.methods_of(k) if m not in reach)
    for f in reach:
        ctx.analysed(f)
        if f.cls is not None and f.cls is not base and f.name == "__init__":
            continue
        for x in ast.walk(f.node):
            tg = None
            if isinstance(x, ast.Assign):
                tg = x.targets[0]
            elif isinstance(x, (ast.AugAssign, ast.AnnAssign)):
                tg = x.target
            b = tg
            while isinstance(b, ast.Subscript):
                b = b.value
            if isinstance(b, ast.Attribute) and isinstance(b.value, ast.Name) and b.value.id == f.self_name and f.cls is base:
                ctx.fail("D8.stateless", f"{f.qualname.split(':')[1]}:self.{b.attr}", f"`{src(x)[:80]}`: the deduplication layer stores state on the sampler between calls; "
                         "a sampler used again with another history then compares against stale rows", f, x)
            if isinstance(x, ast.Call) and isinstance(x.func, ast.Attribute) and x.func.attr in ("append", "extend", "add", "update", "setdefault", "insert") \
                    and isinstance(x.func.value, ast.Attribute) and isinstance(x.func.value.value, ast.Name) and x.func.value.value.id == f.self_name and f.cls is base:
                ctx.fail("D8.stateless", f"{f.qualname.split(':')[1]}:self.{x.func.value.attr}.{x.func.attr}", f"`{src(x)[:80]}` accumulates state on the sampler between sample() calls", f, x)
            if isinstance(x, ast.Global):
                ctx.fail("D8.stateless", f"{f.qualname.split(':')[1]}:global", f"`{src(x)}` in the deduplication layer", f, x)
        for d in f.node.decorator_list:
            nm = (dotted(d) or (dotted(d.func) if isinstance(d, ast.Call) else "") or "").split(".")[-1]
            if nm in ("lru_cache", "cache"):
                ctx.fail("D8.stateless", f"{f.qualname.split(':')[1]}:decorator:{nm}", f"@{nm} in the deduplication layer keeps earlier histories", f, d)
    ctx.ok("D8.stateless", "dedup-layer:scanned", f"{len(reach)} functions of the deduplication layer keep no state between calls")


# ---------------------------------------------------------------------------------------------- fresh batches
VIEW_METHODS = {"reshape", "view", "ravel", "squeeze", "transpose", "swapaxes", "astype_view"}
VIEW_FUNCS = {"asarray", "asanyarray", "ascontiguousarray", "atleast_1d", "atleast_2d", "reshape", "squeeze", "transpose", "ravel"}


def _basic_index(e: ast.expr) -> bool:
    """A basic (view-making) index: slices, integers, None/Ellipsis and tuples of them."""
    if isinstance(e, ast.Slice):
        return True
    if isinstance(e, ast.Constant) and (isinstance(e.value, int) or e.value is None or e.value is Ellipsis):
        return True
    if isinstance(e, ast.UnaryOp) and isinstance(e.operand, ast.Constant):
        return True
    if isinstance(e, ast.Tuple):
        return all(_basic_index(x) for x in e.elts)
    return False


def retained_roots(prog, f: FuncInfo, e: ast.expr, depth: int = 0, seen: frozenset = frozenset()) -> set[str]:
    """The attributes of `self` whose storage the value of `e` may share (through names, views and repository helpers).
    Fresh values (constructors, arithmetic, advanced indexing, third-party calls) have no roots."""
    if depth > 6:
        return set()
    sn = f.self_name
    if isinstance(e, ast.Name):
        if e.id in seen:
            return set()
        out: set[str] = set()
        for s_ in walk_scope(f.node):
            if isinstance(s_, (ast.Assign, ast.AnnAssign)) and s_.value is not None:
                for t in ([s_.target] if isinstance(s_, ast.AnnAssign) else s_.targets):
                    if isinstance(t, ast.Name) and t.id == e.id:
                        out |= retained_roots(prog, f, s_.value, depth + 1, seen | {e.id})
                    elif isinstance(t, ast.Tuple) and any(isinstance(x, ast.Name) and x.id == e.id for x in t.elts) and isinstance(s_.value, ast.Tuple) and len(s_.value.elts) == len(t.elts):
                        k = next(i for i, x in enumerate(t.elts) if isinstance(x, ast.Name) and x.id == e.id)
                        out |= retained_roots(prog, f, s_.value.elts[k], depth + 1, seen | {e.id})
            elif isinstance(s_, ast.NamedExpr) and isinstance(s_.target, ast.Name) and s_.target.id == e.id:
                out |= retained_roots(prog, f, s_.value, depth + 1, seen | {e.id})
        return out
    if isinstance(e, ast.Attribute):
        if sn is not None and isinstance(e.value, ast.Name) and e.value.id == sn:
            return {e.attr}
        if e.attr == "T":
            return retained_roots(prog, f, e.value, depth + 1, seen)
        return set()
    if isinstance(e, ast.Subscript):
        return retained_roots(prog, f, e.value, depth + 1, seen) if _basic_index(e.slice) else set()
    if isinstance(e, ast.IfExp):
        return retained_roots(prog, f, e.body, depth + 1, seen) | retained_roots(prog, f, e.orelse, depth + 1, seen)
    if isinstance(e, ast.BoolOp):
        out = set()
        for v in e.values:
            out |= retained_roots(prog, f, v, depth + 1, seen)
        return out
    if isinstance(e, ast.NamedExpr):
        return retained_roots(prog, f, e.value, depth + 1, seen)
    if isinstance(e, ast.Call):
        d = dotted(e.func) or ""
        last = d.split(".")[-1]
        if last == "getattr" and len(e.args) >= 2 and sn is not None and isinstance(e.args[0], ast.Name) and e.args[0].id == sn and isinstance(e.args[1], ast.Constant):
            return {str(e.args[1].value)} | (retained_roots(prog, f, e.args[2], depth + 1, seen) if len(e.args) > 2 else set())
        if last == "cast" and len(e.args) == 2:
            return retained_roots(prog, f, e.args[1], depth + 1, seen)
        tg = [t for t in prog.resolve_call(f, e) if isinstance(t, FuncInfo)]
        if tg:
            out = set()
            for t in tg:
                if t.qualname == f.qualname or "abstractmethod" in t.decorators:
                    continue
                for r in returns_of(t):
                    if r.value is None:
                        continue
                    for root in retained_roots(prog, t, r.value, depth + 1, frozenset()):
                        out.add(root)
                    # parameters handed back: the roots of the corresponding arguments
                    names = {x.id for x in ast.walk(r.value) if isinstance(x, ast.Name)}
                    params = [p_ for p_ in t.params if p_ != t.self_name]
                    for i, a in enumerate(e.args):
                        if i < len(params) and params[i] in names and params[i] in _view_names(prog, t, r.value):
                            out |= retained_roots(prog, f, a, depth + 1, seen)
            return out
        if isinstance(e.func, ast.Attribute) and last in VIEW_METHODS:
            return retained_roots(prog, f, e.func.value, depth + 1, seen)
        if last in VIEW_FUNCS and e.args and d.split(".")[0] in ("np", "numpy"):
            return retained_roots(prog, f, e.args[0], depth + 1, seen)
        return set()
    return set()


def _view_names(prog, t: FuncInfo, e: ast.expr) -> set[str]:
    """Parameter names of `t` that the value `e` may be a view of (same reading as retained_roots, for parameters)."""
    out: set[str] = set()

    def go(x: ast.expr, depth: int, seen: frozenset) -> None:
        if depth > 6:
            return
        if isinstance(x, ast.Name):
            if x.id in t.params:
                out.add(x.id)
            if x.id in seen:
                return
            for s_ in walk_scope(t.node):
                if isinstance(s_, (ast.Assign, ast.AnnAssign)) and s_.value is not None:
                    for tg in ([s_.target] if isinstance(s_, ast.AnnAssign) else s_.targets):
                        if isinstance(tg, ast.Name) and tg.id == x.id:
                            go(s_.value, depth + 1, seen | {x.id})
        elif isinstance(x, ast.Subscript) and _basic_index(x.slice):
            go(x.value, depth + 1, seen)
        elif isinstance(x, ast.Attribute) and x.attr == "T":
            go(x.value, depth + 1, seen)
        elif isinstance(x, ast.IfExp):
            go(x.body, depth + 1, seen)
            go(x.orelse, depth + 1, seen)
        elif isinstance(x, ast.Call):
            last = (dotted(x.func) or "").split(".")[-1]
            if isinstance(x.func, ast.Attribute) and last in VIEW_METHODS:
                go(x.func.value, depth + 1, seen)
            elif last in VIEW_FUNCS and x.args:
                go(x.args[0], depth + 1, seen)

    go(e, 0, frozenset())
    return out


def fresh_batch_rule(ctx: Context) -> None:
    """`sample()` substitutes the repeats of the first draw by the rows of later draws *in place*: a generator that hands out (a view of) storage it
    keeps - a work array reused between calls - makes the redraw overwrite the first draw, altering points that were not repeats (and the batch
    handed out by the previous call).  Every concrete sample_batch must return storage allocated during the call."""
    prog = ctx.prog
    base = ctx.func(SAMPLE).cls
    n_bodies = 0
    for c in prog.subclasses(base):
        m = c.methods.get("sample_batch")
        if m is None or "abstractmethod" in m.decorators:
            continue
        n_bodies += 1
        ctx.analysed(m)
        g = None
        for r in returns_of(m):
            if r.value is None:
                continue
            roots = retained_roots(prog, m, r.value)
            # an attribute (re)bound to a fresh value on every path before the return is not storage kept from an earlier call
            kept = set()
            for a in sorted(roots):
                stores = [s_ for fn in [m] for s_ in walk_scope(fn.node) if isinstance(s_, (ast.Assign, ast.AnnAssign)) and s_.value is not None
                          for t in ([s_.target] if isinstance(s_, ast.AnnAssign) else s_.targets)
                          if isinstance(t, ast.Attribute) and isinstance(t.value, ast.Name) and t.value.id == m.self_name and t.attr == a]
                if stores:
                    if g is None:
                        g = CFG(m.node)
                    rn = g.nodes_of(r)[0]
                    dom = g.dominators()
                    if any(g.nodes_of(s_) and g.nodes_of(s_)[0] in dom.get(rn, set()) and not (retained_roots(prog, m, s_.value) & {a}) for s_ in stores):
                        continue
                kept.add(a)
            key = f"{c.name}.sample_batch:return:{' '.join(src(r.value).split())[:60]}"
            ctx.check(not kept, "D8.fresh-batch", key, f"{c.name}.sample_batch returns storage allocated during the call",
                      f"{c.name}.sample_batch returns `{src(r.value)[:60]}`, which may share storage with `self.{sorted(kept)[0] if kept else ''}` kept from an earlier call: the redraw of sample() "
                      "then overwrites the first draw (points that were not repeats change) and the batch returned by the previous call", m, r)
    ctx.floor("D8", "concrete sample_batch bodies", n_bodies, 7)


def budget_plumbing(ctx: Context) -> None:
    """The pass budget the user asked for is the budget sample() uses: every sampler constructor forwards its arguments to the parameters of the same
    name of the base-class constructor (a name passed positionally that lands on a differently named parameter is misrouted)."""
    from ..util import misrouted_super_arguments
    n, bad = misrouted_super_arguments(ctx.prog, "BaseSampler")
    for m, call, why in bad:
        ctx.fail("D9.constructor-forwarding", f"{m.qualname.split(':')[1]}:{' '.join(src(call).split())[:50]}", f"{why}: the option the user set is ignored / another one is overwritten", m, call)
    ctx.ok("D9.constructor-forwarding", "samplers:super-init", f"{n} constructor forwarding call(s) in the sampler hierarchy: every name lands on the parameter of the same name")
    ctx.floor("D9", "constructor forwarding calls in the sampler hierarchy", n, 6)
