"""C15 - search-space specifications are validated and discretised as documented.

R1 ordered validation decided for every input by a complete order-class table, R2 payloads,
R3 grid construction, R4 end-point slack.
"""
from __future__ import annotations

import ast
import itertools
import re
from fractions import Fraction

from ..absint import Evaluator, Licence, Obj
from ..errors import AnalysisError
from ..model import FuncInfo, dotted, src, walk_scope
from ..report import Context
from ..util import calls_in, is_self_attr, kwarg, normaliser, parse_expr

LEVEL_TEXT = (
    "Static analysis of black_it/search_space.py (no execution of the repository): SearchSpace._check_bounds is "
    "interpreted by the checker's own abstract evaluator over one representative per order class of its inputs "
    "(lengths vs 2 / vs each other; per parameter the relative order of lower, upper, 0, precision and upper-lower, "
    "with several sign witnesses; two parameters to expose cross-index precedence) after a licence check that the "
    "function touches its inputs only through len, literal subscripts, zip/enumerate, comparisons and one "
    "subtraction inside a comparison - so the finite table covers every input. Outcome (exception class, payload) "
    "is compared with the order documented in SearchSpace.__init__'s docstring, lowest offending index first. "
    "Also decides the exception classes' attribute stores, the arange-based grid construction (one index, dims "
    "columns, running product) and the form of the end-point slack. np.arange's own end-point arithmetic is not decided."
    ' A tolerant comparison (isclose / abs(...) < eps) in the validator, a grid filtered by exact comparison with the bound, and a rounding re-binding of the arange column are findings.'
    ' A grid column laid out by np.linspace between the bounds is a finding (spacing equals the precision only for ranges that are a whole number of steps).'
    " The module-state rule of C05 kept to search_space.py is included: a search space is a function of its own specification."
)
TECHNIQUE = "finite order-class abstract evaluation with licence check + formula normal form of the grid constructor"

SS = "black_it.search_space:SearchSpace"
DOC_ORDER = [
    "BoundsNotOfSizeTwoError", "BoundsOfDifferentLengthError", "BadPrecisionLengthError",
    "SameLowerAndUpperBoundError", "LowerBoundGreaterThanUpperBoundError", "PrecisionZeroError",
    "PrecisionGreaterThanBoundsRangeError",
]
PAYLOAD_ATTRS = {
    "BoundsNotOfSizeTwoError": ["count_bounds_subarrays"],
    "BoundsOfDifferentLengthError": ["lower_bounds_length", "upper_bounds_length"],
    "BadPrecisionLengthError": ["precisions_length", "bounds_length"],
    "SameLowerAndUpperBoundError": ["param_index", "bound_value"],
    "LowerBoundGreaterThanUpperBoundError": ["param_index", "lower_bound", "upper_bound"],
    "PrecisionZeroError": ["param_index"],
    "PrecisionGreaterThanBoundsRangeError": ["param_index", "lower_bound", "upper_bound", "precision"],
}


def run(ctx: Context) -> None:
    order = documented_order(ctx)
    ctx.rule(r1_r2_table, order)
    ctx.rule(r2_exception_classes)
    ctx.rule(r3_grid)
    # a search space is a function of its own specification: the module keeps nothing between constructions (module-state rule of C05, kept to search_space.py)
    from . import c18
    ctx.rule(c18.no_shared_tables, "black_it/search_space.py")


def documented_order(ctx: Context) -> list[str]:
    init = ctx.func(f"{SS}.__init__")
    doc = ast.get_docstring(init.node) or ""
    found = []
    for m in re.finditer(r"\b(\w+Error)\b", doc):
        if m.group(1) in DOC_ORDER and m.group(1) not in found:
            found.append(m.group(1))
    if set(found) != set(DOC_ORDER):
        raise AnalysisError(f"anchor vanished: SearchSpace.__init__ docstring no longer lists the seven constraint errors (found {found})")
    ctx.check(found == DOC_ORDER, "R1.doc-order", "SearchSpace.__init__:docstring-order",
              "the docstring lists the constraints in the order stated by the property",
              f"docstring order {found} differs from the property's order {DOC_ORDER}", init, init.node)
    # __init__ must run the validation before anything else uses the arguments
    calls = [c for c in calls_in(init.node) if any(isinstance(t, FuncInfo) and t.name == "_check_bounds" for t in ctx.prog.resolve_call(init, c))]
    ctx.floor("R1", "call of _check_bounds in SearchSpace.__init__", len(calls), 1)
    c = calls[0]
    ok = [src(a) for a in c.args] == ["parameters_bounds", "parameters_precision"]
    ctx.check(ok, "R1.routing", "SearchSpace.__init__:_check_bounds-args", "_check_bounds(parameters_bounds, parameters_precision)",
              f"validation called as {src(c)}", init, c)
    # the validation call lies in the constructor's validation prefix (everything before the first store into `self`): that prefix is what R1 evaluates,
    # so checks a refactoring moved from _check_bounds into the constructor (or the other way round) are still read in their order of execution
    first_store = next((i for i, s_ in enumerate(init.node.body) if any(isinstance(x, ast.Attribute) and isinstance(x.ctx, ast.Store) and isinstance(x.value, ast.Name)
                                                                          and x.value.id == init.self_name for x in ast.walk(s_))), len(init.node.body))
    in_prefix = any(any(x is c for x in ast.walk(s_)) for s_ in init.node.body[:first_store])
    ctx.check(in_prefix, "R1.routing", "SearchSpace.__init__:validate-first",
              "validation runs before the constructor stores anything derived from the specification", "the constructor stores attributes before validating its arguments", init, c)
    return found


def _expected(order: list[str], bounds: list, prec: list) -> tuple[str, dict] | None:
    """The documented outcome for a concrete representative (the rule table, not repository code)."""
    rank = {n: i for i, n in enumerate(order)}
    cands: list[tuple[tuple, str, dict]] = []
    if len(bounds) != 2:
        cands.append(((rank["BoundsNotOfSizeTwoError"],), "BoundsNotOfSizeTwoError", {"count_bounds_subarrays": len(bounds)}))
        return min(cands)[1:]
    lo, hi = bounds
    if len(lo) != len(hi):
        return "BoundsOfDifferentLengthError", {"lower_bounds_length": len(lo), "upper_bounds_length": len(hi)}
    if len(prec) != len(lo):
        return "BadPrecisionLengthError", {"precisions_length": len(prec), "bounds_length": len(lo)}
    for i, (l, h, p) in enumerate(zip(lo, hi, prec)):
        per: list[tuple[int, str, dict]] = []
        if l == h:
            per.append((rank["SameLowerAndUpperBoundError"], "SameLowerAndUpperBoundError", {"param_index": i, "bound_value": l}))
        if l > h:
            per.append((rank["LowerBoundGreaterThanUpperBoundError"], "LowerBoundGreaterThanUpperBoundError", {"param_index": i, "lower_bound": l, "upper_bound": h}))
        if p == 0:
            per.append((rank["PrecisionZeroError"], "PrecisionZeroError", {"param_index": i}))
        if p > h - l:
            per.append((rank["PrecisionGreaterThanBoundsRangeError"], "PrecisionGreaterThanBoundsRangeError", {"param_index": i, "lower_bound": l, "upper_bound": h, "precision": p}))
        if per:
            return min(per, key=lambda t: t[0])[1:]
    return None


def _param_witnesses() -> list[tuple[str, Fraction, Fraction, Fraction]]:
    vals = [Fraction(v) for v in (-6, -2, 0, 2, 6)]
    out = []
    for lo, hi in itertools.product(vals, repeat=2):
        r = hi - lo
        if r > 0:
            eps = Fraction(1, 2 ** 30)
            precs = {"0": Fraction(0), "in(0,r)": r / 4, "in(0,r)~r": r - eps, "=r": r, ">r~r": r + eps, ">r": r + 1}
        else:
            precs = {"0": Fraction(0), ">0": Fraction(1, 2), ">0~0": Fraction(1, 2 ** 30)}
        rel = "<" if lo < hi else "=" if lo == hi else ">"
        for tag, p in precs.items():
            out.append((f"lo{rel}hi[{lo},{hi}] prec{tag}", lo, hi, p))
    return out


def r1_r2_table(ctx: Context, order: list[str]) -> None:
    prog = ctx.prog
    cb = ctx.func(f"{SS}._check_bounds")
    # What is evaluated is the constructor's *validation prefix*: everything SearchSpace.__init__ does before it first stores into `self` - the call of
    # _check_bounds, and whatever part of the validation a refactoring moved into the constructor or into further helpers (followed interprocedurally).
    init = ctx.func(f"{SS}.__init__")
    prefix: list[ast.stmt] = []
    for st in init.node.body:
        if any(isinstance(x, ast.Attribute) and isinstance(x.ctx, ast.Store) and isinstance(x.value, ast.Name) and x.value.id == init.self_name for x in ast.walk(st)):
            break
        prefix.append(st)
    reach = [cb]
    for st in prefix:
        for c_ in ast.walk(st):
            if isinstance(c_, ast.Call):
                for t in prog.resolve_call(init, c_):
                    if isinstance(t, FuncInfo) and t not in reach:
                        reach.append(t)
    raises = [n for st in prefix for n in ast.walk(st) if isinstance(n, ast.Raise)] + [n for f_ in reach for n in walk_scope(f_.node) if isinstance(n, ast.Raise)]
    ctx.floor("R1", "raise sites of the constructor's validation (prefix of __init__ and the validators it calls)", len(raises), 7)
    from ..absint import Outcome, _Raise, _Return
    rows = 0
    classes: set[str] = set()
    bad: dict[str, dict] = {}
    # a tolerant comparison (isclose / allclose / approx / rounding before comparing) in a validator whose documented checks are exact: for any
    # tolerance there are well-formed bounds closer than it (rejected as "same") and inverted ones (reported as "same" instead of "lower > upper")
    tolerant = [c for c in ast.walk(cb.node) if isinstance(c, ast.Call) and (dotted(c.func) or "").split(".")[-1] in ("isclose", "allclose", "approx", "assert_allclose", "array_equal")
                and (dotted(c.func) or "").split(".")[-1] != "array_equal"]
    for c in tolerant:
        ctx.fail("R1.order", f"SearchSpace._check_bounds:tolerant:{(dotted(c.func) or '').split('.')[-1]}", f"`{src(c)[:80]}` compares the bounds / precisions up to a tolerance, the documented checks are exact: "
                 "well-formed specifications whose values differ by less than the tolerance (e.g. lower=1e9, upper=1e9+0.5) are rejected, and inverted ones that close are reported as SameLowerAndUpperBoundError", cb, c)
    if tolerant:
        return

    def one(label: str, bounds: list, prec: list) -> None:
        nonlocal rows
        rows += 1
        ev = Evaluator(prog, init)
        try:
            try:
                ev._block(prefix, {init.self_name: Obj("SearchSpace", {}), "parameters_bounds": bounds, "parameters_precision": prec, "verbose": False})  # noqa: SLF001
                out = Outcome("return", node=init.node)
            except _Return as r_:
                out = Outcome("return", value=r_.value, node=r_.node)
            except _Raise as r_:
                out = Outcome("raise", r_.name, r_.args_, r_.kwargs_, r_.node)
        except Licence as exc:
            raise AnalysisError(f"licence check failed for the validation of SearchSpace: {exc}") from exc
        want = _expected(order, bounds, prec)
        if out.kind == "raise":
            got_name = out.name
            # bind payload to the exception constructor's parameter names
            ecls = prog.find_class(got_name) if any(c.name == got_name for c in prog.classes.values()) else None
            payload = {}
            if ecls is not None and "__init__" in ecls.methods:
                names = ecls.methods["__init__"].bound_params
                payload = dict(zip(names, out.args))
                payload.update(dict(out.kwargs))
            else:
                payload = {f"arg{i}": a for i, a in enumerate(out.args)}
            got = (got_name, payload)
        else:
            got = None
        cls_key = label.split(" | ")[0] if " | " in label else label
        classes.add(label)
        if got != want:
            gname = got[0] if got else "accepted"
            wname = want[0] if want else "accepted"
            if gname != wname:
                key = f"SearchSpace._check_bounds:order:{wname}->{gname}"
                msg = f"input class [{label}] bounds={_fmt(bounds)} precision={_fmt(prec)}: documented outcome {wname}, code gives {gname}"
                rule = "R1.order"
            else:
                key = f"SearchSpace._check_bounds:payload:{gname}"
                msg = f"input class [{label}]: {gname} carries {_fmt(got[1])}, documented {_fmt(want[1])}"
                rule = "R2.payload"
            if key not in bad:
                bad[key] = {"rule": rule, "msg": msg, "node": out.node}
        if rows <= 3 or (rows % 997 == 0):
            ctx.sample({"class": label, "bounds": _fmt(bounds), "precision": _fmt(prec), "outcome": got[0] if got else "accepted"})

    # length rows (complete for the three length comparisons; inner values well formed)
    for nb, nlo, nhi, npr in itertools.product((0, 1, 2, 3), (1, 2, 3), (1, 2, 3), (1, 2, 3)):
        subs = [[Fraction(0)] * nlo, [Fraction(4)] * nhi, [Fraction(9)] * 2][:nb]
        one(f"len(bounds)={nb},len(lo)={nlo},len(hi)={nhi},len(prec)={npr}", subs, [Fraction(1)] * npr)
    # per-parameter order classes, pairs of parameters
    wit = _param_witnesses()
    core = [w for w in wit if "~" not in w[0]]
    for (la, lo0, hi0, p0), (lb, lo1, hi1, p1) in itertools.product(core, repeat=2):
        one(f"{la} | {lb}", [[lo0, lo1], [hi0, hi1]], [p0, p1])
    # near-boundary representatives (same order classes, other witnesses) after a well-formed first parameter
    for la, lo0, hi0, p0 in [w for w in wit if "~" in w[0]]:
        one(f"ok | {la}", [[Fraction(0), lo0], [Fraction(4), hi0]], [Fraction(1), p0])
    # single parameter and three parameters with the error in the last slot
    for la, lo0, hi0, p0 in wit:
        one(f"{la}", [[lo0], [hi0]], [p0])
        one(f"ok | ok | {la}", [[Fraction(0), Fraction(0), lo0], [Fraction(4), Fraction(4), hi0]], [Fraction(1), Fraction(1), p0])
    for key, info in bad.items():
        ctx.fail(info["rule"], key, info["msg"], cb, info["node"])
    if not bad:
        ctx.ok("R1.order", "SearchSpace._check_bounds:order", f"all {rows} order-class rows give the documented exception (or acceptance)")
        ctx.ok("R2.payload", "SearchSpace._check_bounds:payload", f"all raising rows carry the documented index/values ({rows} rows)")
    ctx.tables["C15.R1.order_classes"] = {"rows": rows, "distinct_classes": len(classes), "exhaustive": True,
                                          "licence": "inputs used only via len/subscript/zip/enumerate/comparisons/one subtraction inside a comparison (enforced by sa.absint)"}
    ctx.notes["evaluations_table"] = rows


def _fmt(x):
    if isinstance(x, Fraction):
        return float(x) if x.denominator != 1 else int(x)
    if isinstance(x, (list, tuple)):
        return [_fmt(v) for v in x]
    if isinstance(x, dict):
        return {k: _fmt(v) for k, v in x.items()}
    return x


def r2_exception_classes(ctx: Context) -> None:
    prog = ctx.prog
    base = prog.find_class("SearchSpaceError")
    ctx.check("ValueError" in base.base_names, "R2.hierarchy", "SearchSpaceError:base", "SearchSpaceError derives from ValueError",
              f"SearchSpaceError bases are {base.base_names}", None, None)
    for name, attrs in PAYLOAD_ATTRS.items():
        c = prog.find_class(name)
        ctx.check(base in prog.mro(c), "R2.hierarchy", f"{name}:base", f"{name} is a SearchSpaceError", f"{name} is not a SearchSpaceError", None, None)
        init = c.methods.get("__init__")
        if init is None:
            ctx.fail("R2.attrs", f"{name}:__init__", f"{name} has no constructor storing its payload", None, None)
            continue
        ctx.analysed(init)
        ctx.check(init.bound_params == attrs, "R2.attrs", f"{name}:parameters", f"{name}({', '.join(attrs)})",
                  f"{name} takes {init.bound_params}, documented {attrs}", init, init.node)
        stores = prog.attr_stores(c, inherited=False)
        for a in attrs:
            st = stores.get(a, [])
            ok = len(st) >= 1 and all(isinstance(v, ast.Name) and v.id == a for _, _, v in st)
            ctx.check(ok, "R2.attrs", f"{name}.{a}", f"{name}.{a} stores the constructor argument `{a}`",
                      f"{name}.{a} is {'not stored' if not st else 'stored from `' + src(st[0][2]) + '`'}", init, st[0][1] if st else init.node)


def r3_grid(ctx: Context) -> None:
    prog = ctx.prog
    init = ctx.func(f"{SS}.__init__")
    cls = prog.find_class("SearchSpace")
    # dims == number of precisions == number of columns
    dims = cls.getters.get("dims")
    if dims is None:
        raise AnalysisError("anchor vanished: SearchSpace.dims")
    ret = [n for n in walk_scope(dims.node) if isinstance(n, ast.Return)]
    ok = len(ret) == 1 and src(ret[0].value) in ("len(self._parameters_precision)", "len(self._parameters_bounds[0])", "len(self._param_grid)")
    ctx.check(ok, "R3.dims", "SearchSpace.dims", "dims is the number of parameters", f"dims returns `{src(ret[0].value) if ret else '?'}`", dims, dims.node)
    n = normaliser(prog, init, inline_locals=False)
    aranges = [c for c in ast.walk(init.node) if isinstance(c, ast.Call) and (dotted(c.func) or "").endswith("arange")]
    if not aranges:
        # the one other common way of laying out a grid is decidedly different: linspace pins *both* end points and divides what lies between
        for c in [c for c in ast.walk(init.node) if isinstance(c, ast.Call) and (dotted(c.func) or "").split(".")[-1] == "linspace"]:
            a0, a1 = kwarg(c, "start", 0), kwarg(c, "stop", 1)
            from ..poly import single_assignment_env as _sae
            env_ = _sae(init.node)
            txt = lambda e: src(env_.get(e.id, e)) if isinstance(e, ast.Name) else src(e)  # noqa: E731
            if a0 is not None and a1 is not None and "bounds" in txt(a0) and "bounds" in txt(a1) and "[0]" in txt(a0).replace(" ", "") and "[1]" in txt(a1).replace(" ", ""):
                ctx.fail("R3.arange", "SearchSpace.__init__:linspace", f"the grid column is `{src(c)[:70]}`: linspace pins both bounds and spaces the points by (upper - lower) / (n - 1), "
                         "which is the declared precision only when the range is a whole number of steps - otherwise consecutive grid values do not differ by the precision", init, c)
                return
    ctx.floor("R3", "np.arange call building the grid in SearchSpace.__init__", len(aranges), 1)
    c = aranges[0]
    start, stop, step = kwarg(c, "start", 0), kwarg(c, "stop", 1), kwarg(c, "step", 2)
    if start is None or stop is None or step is None:
        ctx.fail("R3.arange", "SearchSpace.__init__:arange-args", f"np.arange is not called with start, stop and step: `{src(c)}`", init, c)
        return
    # which iteration produces the columns: `for i in range(dims)` with indexed access, or a comprehension over zip(lower, upper, precision)
    holder = getattr(c, "_parent", None)
    loop = comp = None
    cur = c
    while cur is not None and cur is not init.node:
        if isinstance(cur, ast.For) and loop is None:
            loop = cur
        if isinstance(cur, (ast.ListComp, ast.GeneratorExp)) and comp is None:
            comp = cur
        cur = getattr(cur, "_parent", None)
    B = ["parameters_bounds", "self._parameters_bounds"]
    P = ["parameters_precision", "self._parameters_precision"]
    from ..poly import single_assignment_env
    from ..util import IDX, loop_binding, _substitute
    outer_env = {k: v_ for k, v_ in single_assignment_env(init.node).items() if not any(isinstance(x, ast.Call) for x in ast.walk(v_))}

    def expand(e: ast.expr, env: dict[str, ast.expr], depth: int = 0) -> ast.expr:
        """Loop-bound names -> their element at induction index _I_; plain once-assigned locals (`lower_bounds = parameters_bounds[0]`) -> their definition."""
        if depth > 6:
            return e
        for nm in {x.id for x in ast.walk(e) if isinstance(x, ast.Name) and isinstance(x.ctx, ast.Load)}:
            if nm in env:
                return expand(_substitute(e, nm, env[nm]), {k: v_ for k, v_ in env.items() if k != nm}, depth + 1)
            if nm in outer_env and nm not in ("parameters_bounds", "parameters_precision"):
                return expand(_substitute(e, nm, outer_env[nm]), env, depth + 1)
        return e

    lo_forms = {str(n.rat(parse_expr(f"{b}[0][{IDX}]"))) for b in B}
    hi_forms = {str(n.rat(parse_expr(f"{b}[1][{IDX}]"))) for b in B}
    st_forms = {str(n.rat(parse_expr(f"{p_}[{IDX}]"))) for p_ in P}
    count_forms = {str(n.rat(parse_expr(t))) for t in ("self.dims", "len(parameters_precision)", "len(self._parameters_precision)", "len(parameters_bounds[0])", "len(parameters_bounds[1])",
                                                       "len(self._parameters_bounds[0])", "len(self._parameters_bounds[1])")}
    col = None

    def readable(it: ast.expr) -> None:
        for c_ in ast.walk(it):
            if isinstance(c_, ast.Call) and any(isinstance(t, FuncInfo) for t in prog.resolve_call(init, c_)):
                raise AnalysisError(f"{init.loc(it)}: the grid loop iterates `{src(it)[:70]}`, produced by a repository helper that could not be read in place; cannot decide R3")

    if comp is not None and len(comp.generators) == 1:
        gen = comp.generators[0]
        readable(gen.iter)
        benv, counts = loop_binding(gen.target, gen.iter)
        ok_it = not gen.ifs and bool(counts) and all(str(n.rat(expand(c_, {}))) in count_forms for c_ in counts)
        ctx.check(ok_it, "R3.columns", "SearchSpace.__init__:grid-loop", "one column per parameter, in order", f"grid comprehension iterates `{src(gen.iter)[:90]}`" + (" with a filter" if gen.ifs else ""), init, comp)
        par = getattr(comp, "_parent", None)
        ok_store = isinstance(par, (ast.Assign, ast.AnnAssign)) and src(par.targets[0] if isinstance(par, ast.Assign) else par.target) == "self._param_grid"
        ctx.check(ok_store, "R3.columns", "SearchSpace.__init__:append", "the columns, in parameter order, are the grid", "the comprehension result is not stored as the grid", init, comp)
    elif loop is not None:
        readable(loop.iter)
        benv, counts = loop_binding(loop.target, loop.iter)
        it_ok = bool(counts) and all(str(n.rat(expand(c_, {}))) in count_forms for c_ in counts)
        ctx.check(it_ok, "R3.columns", "SearchSpace.__init__:grid-loop", "the grid loop visits every parameter index once, in order", f"grid loop is `for {src(loop.target)} in {src(loop.iter)[:80]}`", init, loop)
        col_names = [t.id for s_ in loop.body if isinstance(s_, (ast.Assign, ast.AnnAssign)) for t in ([s_.target] if isinstance(s_, ast.AnnAssign) else s_.targets) if isinstance(t, ast.Name) and any(x is c for x in ast.walk(s_))]
        col = col_names[0] if col_names else None
        # the appended column must be the arange result itself: a later re-binding that filters it by an exact comparison with the upper bound
        # throws away the end point whenever lower + k*step rounds one ulp above the bound - which is what the slack on `stop` exists to keep
        if col is not None:
            rebinds = [s_ for s_ in ast.walk(loop) if isinstance(s_, (ast.Assign, ast.AugAssign, ast.AnnAssign)) and not any(x is c for x in ast.walk(s_))
                       and any(isinstance(t, ast.Name) and t.id == col for t in ([s_.target] if not isinstance(s_, ast.Assign) else s_.targets))]
            for rb in rebinds:
                cmp_ = [x for x in ast.walk(rb) if isinstance(x, ast.Compare) and len(x.ops) == 1 and isinstance(x.ops[0], (ast.Lt, ast.LtE, ast.Gt, ast.GtE))
                        and any(isinstance(y, ast.Name) and y.id == col for y in ast.walk(x))]
                exact = [x for x in cmp_ if any(str(n.rat(expand(side, benv))) in hi_forms for side in (x.left, x.comparators[0]) if not any(isinstance(y, ast.Name) and y.id == col for y in ast.walk(side)))]
                if exact:
                    ctx.fail("R3.columns", "SearchSpace.__init__:column-filtered-by-upper-bound", f"`{src(rb)[:90]}` filters the arange result by an exact comparison with the upper bound: when lower + k*precision "
                             "rounds one ulp above the bound (e.g. [0, 0.3] step 0.1: 0.30000000000000004) the end point is dropped, although the range is a whole number of steps - grid and space_size lose a point", init, rb)
                elif any(isinstance(x, ast.Call) and (dotted(x.func) or "").split(".")[-1] in ("round", "around", "round_", "rint", "floor", "ceil", "trunc", "fix") for x in ast.walk(rb)):
                    ctx.fail("R3.columns", "SearchSpace.__init__:column-rounded", f"`{src(rb)[:90]}` rounds the arange result: the grid is no longer lower, lower+precision, ... "
                             "(a lower bound or a precision that is not a multiple of the rounding unit moves every point, e.g. lower 0.05 with precision 0.1, or precision 0.25)", init, rb)
                else:
                    raise AnalysisError(f"{init.loc(rb)}: the grid column `{col}` is re-bound after np.arange (`{src(rb)[:60]}`); cannot decide what is appended to the grid")
        appended = [x for x in ast.walk(loop) if isinstance(x, ast.Call) and isinstance(x.func, ast.Attribute) and x.func.attr == "append" and is_self_attr(x.func.value, init.self_name, "_param_grid")]
        ok = len(appended) == 1 and (src(appended[0].args[0]) == col or any(y is c for y in ast.walk(appended[0])))
        ctx.check(ok, "R3.columns", "SearchSpace.__init__:append", "each column is appended to the grid in parameter order", "the grid column is not appended to _param_grid", init, loop)
        grid_init = [v for f, s_, v in prog.attr_stores(cls, inherited=False).get("_param_grid", []) if f is init]
        ctx.check(len(grid_init) == 1 and isinstance(grid_init[0], ast.List) and not grid_init[0].elts, "R3.columns", "SearchSpace.__init__:grid-init", "the grid starts empty", "the grid does not start as an empty list", init, init.node)
    else:
        raise AnalysisError(f"{init.loc(c)}: the grid is not built by a loop over the parameter indices nor by a comprehension over zip(bounds, precisions); cannot decide R3")
    start_x, stop_x, step_x = expand(start, benv), expand(stop, benv), expand(step, benv)
    ctx.check(str(n.rat(start_x)) in lo_forms, "R3.arange", "SearchSpace.__init__:arange-start", "column i starts at the lower bound of parameter i", f"grid start is `{src(start)}`", init, c)
    ctx.check(str(n.rat(step_x)) in st_forms, "R3.arange", "SearchSpace.__init__:arange-step", "column i advances by the precision of parameter i", f"grid step is `{src(step)}`", init, c)
    slack = None
    for hb in B:
        diff = n.rat(stop_x) - n.rat(parse_expr(f"{hb}[1][{IDX}]"))
        if diff is not None and not any(a_ in hi_forms for a_ in diff.atoms()):
            slack = diff
            break
    ctx.check(slack is not None, "R3.arange", "SearchSpace.__init__:arange-stop", "column i stops just beyond the upper bound of parameter i", f"grid stop is `{src(stop)}`", init, c)
    if slack is not None:
        cst = slack.const()
        ctx.check(cst is None or cst > 0, "R3.slack-positive", "SearchSpace.__init__:arange-stop-slack-sign",
                  "the stop value lies strictly beyond the upper bound (so a bound that is a whole number of steps away is included)",
                  f"end-point slack is {slack}: the upper bound itself is excluded from the grid", init, c)
        step_atoms = [a_ for a_ in slack.atoms() if a_ in st_forms]
        if step_atoms:
            from ..poly import Rat, p_atom
            ratio = (slack / Rat(p_atom(step_atoms[0]))).const()
            ctx.check(ratio is not None and 0 < ratio <= Fraction(1, 10 ** 6), "R4.slack-scale", "SearchSpace.__init__:arange-stop-slack:fraction-of-step",
                      "the end-point slack is a negligible fraction of the step",
                      f"the end-point slack is {ratio if ratio is not None else slack} of a step: whenever the range is not a whole number of steps and the remainder exceeds 1 - {ratio}, "
                      "the grid gains a point above the declared upper bound (e.g. bounds [0, 1], step 0.15 -> 1.05), so samplers propose and the model is run outside the declared space", init, c)
        else:
            ctx.check((cst is not None and cst <= 0) or _step_validated_ge(ctx, cst), "R4.slack-scale", "SearchSpace.__init__:arange-stop-slack:absolute-constant",
                      "the end-point slack scales with the step (or the step is validated to be larger than it)",
                      f"the end-point slack is the absolute constant {float(cst) if cst is not None else slack}: for a precision below it the grid runs past the upper bound "
                      "(e.g. bounds [0, 1e-3], precision 1e-8 -> 9 grid points above the bound)", init, c)
            ctx.check(cst is None or cst <= Fraction(1, 10 ** 6), "R4.slack-scale", "SearchSpace.__init__:arange-stop-slack:size", "the absolute slack is at most 1e-6", f"the end-point slack is {float(cst) if cst is not None else slack}", init, c)
    dt = kwarg(c, "dtype")
    ctx.check(dt is None or src(dt) in ("np.float64", "float", "'float64'", "numpy.float64"), "R3.arange", "SearchSpace.__init__:arange-dtype",
              "grid columns are float64", f"grid dtype is {src(dt)}", init, c)
    # space size: exact (arbitrary precision) product of the column lengths
    size_stores = [(s_, v) for f, s_, v in prog.attr_stores(cls, inherited=False).get("_space_size", []) if f is init]
    for s_, v in size_stores:
        for x in ast.walk(v) if v is not None else []:
            if isinstance(x, ast.Call) and prog.qualify(init.module, dotted(x.func) or "").startswith("numpy.") and (dotted(x.func) or "").split(".")[-1] in ("prod", "product", "cumprod", "multiply"):
                ctx.fail("R3.size", "SearchSpace.__init__:space-size:fixed-width-product", f"`{src(s_)[:80]}`: numpy multiplies the column lengths in 64-bit integers, which wrap silently: for large spaces "
                         "(e.g. 4 parameters of 100001 points) the reported size is not the product of the grid lengths", init, s_)
    init_one = any(isinstance(s_, (ast.Assign, ast.AnnAssign)) and isinstance(v, ast.Constant) and v.value == 1 for s_, v in size_stores)
    upd = [(s_, v) for s_, v in size_stores if isinstance(s_, ast.AugAssign) or (isinstance(s_, (ast.Assign, ast.AnnAssign)) and not isinstance(v, ast.Constant))]
    ok_size = False
    if len(upd) == 1:
        s_, v = upd[0]
        lp = getattr(s_, "_parent", None)
        if isinstance(s_, ast.AugAssign) and isinstance(s_.op, ast.Mult) and isinstance(lp, ast.For):
            if lp is loop and col is not None:
                ok_size = init_one and src(v) in (f"len({col})", f"{col}.shape[0]", f"{col}.size")
            elif isinstance(lp.target, ast.Name) and src(lp.iter) in ("self._param_grid", "self.param_grid"):
                ok_size = init_one and src(v) in (f"len({lp.target.id})", f"{lp.target.id}.shape[0]", f"{lp.target.id}.size")
        elif isinstance(s_, (ast.Assign, ast.AnnAssign)) and isinstance(v, ast.Call) and (dotted(v.func) or "") in ("math.prod", "prod") and v.args and isinstance(v.args[0], (ast.GeneratorExp, ast.ListComp)):
            g0 = v.args[0]
            ok_size = len(g0.generators) == 1 and src(g0.generators[0].iter) in ("self._param_grid", "self.param_grid") and src(g0.elt) == f"len({src(g0.generators[0].target)})"
        elif isinstance(s_, (ast.Assign, ast.AnnAssign)) and isinstance(v, ast.Call) and (dotted(v.func) or "") in ("reduce", "functools.reduce") and len(v.args) == 3 \
                and src(v.args[0]) in ("operator.mul", "mul", "int.__mul__") and isinstance(v.args[2], ast.Constant) and v.args[2].value == 1:
            # reduce(operator.mul, (len(c) for c in grid), 1): the same exact product of Python integers
            seq = v.args[1]
            while isinstance(seq, ast.Call) and (dotted(seq.func) or "") in ("tuple", "list") and len(seq.args) == 1:
                seq = seq.args[0]
            ok_size = isinstance(seq, (ast.GeneratorExp, ast.ListComp)) and len(seq.generators) == 1 and not seq.generators[0].ifs \
                and src(seq.generators[0].iter) in ("self._param_grid", "self.param_grid") and src(seq.elt) in (f"len({src(seq.generators[0].target)})", f"{src(seq.generators[0].target)}.shape[0]")
            if not ok_size and not isinstance(seq, (ast.GeneratorExp, ast.ListComp)):
                raise AnalysisError(f"{init.loc(s_)}: the space size is a reduction over `{src(seq)[:50]}`, which the rule cannot read")
        elif isinstance(s_, ast.Assign) and col is not None and lp is loop:
            ok_size = init_one and str(n.rat(v)) == str(n.rat(parse_expr(f"self._space_size * len({col})")))
    already = any(f_.key.endswith("fixed-width-product") for f_ in ctx.findings)
    if not already:
        ctx.check(ok_size, "R3.size", "SearchSpace.__init__:space-size", "space_size is the exact product of the column lengths (Python integers, starting from 1)",
                  "space_size is not the running product of the grid column lengths", init, upd[0][0] if upd else init.node)
    for prop_name, attr in (("param_grid", "_param_grid"), ("space_size", "_space_size"), ("parameters_bounds", "_parameters_bounds"), ("parameters_precision", "_parameters_precision")):
        g = cls.getters.get(prop_name)
        r = [x for x in walk_scope(g.node) if isinstance(x, ast.Return)] if g else []
        ctx.check(bool(r) and src(r[0].value) == f"self.{attr}", "R3.getters", f"SearchSpace.{prop_name}", f"{prop_name} returns {attr}",
                  f"{prop_name} returns `{src(r[0].value) if r else '?'}`", g, g.node if g else None)


def _step_validated_ge(ctx: Context, cst) -> bool:
    return False
