"""C19 - the bandit agent and reward follow their published update rules."""
from __future__ import annotations

import ast

from ..cfg import CFG
from ..errors import AnalysisError
from ..model import FuncInfo, dotted, src, walk_scope
from ..report import Context
from ..util import returned_value, calls_in, is_self_attr, node_for, normaliser, parse_expr, path_text, reaching_events, returns_of, kwarg

LEVEL_TEXT = (
    "Static analysis of mab.py / epsilon_greedy.py (no execution): get_reward and policy are read path by path "
    "(per-path summaries: branch decisions, returned value and attribute stores, locals substituted forward and attribute "
    "reads versioned across stores, so guard clauses, early returns and temporaries read alike): reward has the normal form "
    "(ref - best)/ref - with ref the reference held at entry - exactly on the paths where best < ref and 0.0 otherwise, the "
    "reference is stored only on those paths, once, with `best`; learn() increments count[action] before the step size is taken and updates Q[action] <- Q[action] + "
    "step*(reward - Q[action]) (rational normal form), step = 1/count[action] iff alpha == -1 else alpha; only index "
    "`action` of Q/actions_count is written; policy() returns int(x) with x in {argmax(Q), choice(arange(n_actions))}, greedy "
    "exactly on the negative edge of `u < eps` with u drawn from the agent's own generator in [0,1) - so eps = 0 is always "
    "greedy; no other randomness source. These decide the update rules for every reward sequence because they do not depend on values."
    ' `learn` is read path by path: every path counts the visit and then updates the estimate with the post-increment count; the reward is read from per-path summaries (decisions, returned value, stores), so guard-clause and if/else forms read alike.'
    " Determinism of the agent's choices from its seed: every _set_random_state override between the agent and BaseSeedable hands the seed on unmodified (seed 0 included) before anything is drawn (C01-R3)."
)
TECHNIQUE = "per-path function summaries (path-sensitive forward substitution with attribute versioning) + rational normal forms + CFG ordering queries"

ENV = "black_it.schedulers.rl.envs.mab:MABCalibrationEnv"
AG = "black_it.schedulers.rl.agents.epsilon_greedy:MABEpsilonGreedy"


def run(ctx: Context) -> None:
    # one agent's estimates and draws are its own: no module- or class-level state in the agents (module-state rule of C05, kept to the agents package)
    from . import c18 as _c18
    ctx.rule(_c18.no_shared_tables, "black_it/schedulers/rl/agents/")
    ctx.rule(reward)
    ctx.rule(learn)
    ctx.rule(policy)
    # "its choices are a deterministic function of its seed": every override of _set_random_state between the agent and BaseSeedable hands the
    # seed on unmodified (seed 0 included) before anything is drawn (shared with C01-R3)
    from . import c01
    ctx.rule(c01.r3_super_first)


def reward(ctx: Context) -> None:
    f = ctx.func(f"{ENV}.get_reward")
    from ..util import require_readable
    require_readable(ctx.prog, f)
    g = CFG(f.node)
    n = normaliser(ctx.prog, f, inline_locals=False)
    best = "best_loss"
    if best not in f.params:
        raise AnalysisError("anchor vanished: get_reward(best_param, best_loss)")
    ref = "self._curr_best_loss"
    want = n.rat(parse_expr(f"({ref} - {best}) / {ref}"))
    improving = {n.canon(parse_expr(f"{best} < {ref}")): "true", n.canon(parse_expr(f"{ref} > {best}")): "true",
                 n.canon(parse_expr(f"{best} >= {ref}")): "false", n.canon(parse_expr(f"{ref} <= {best}")): "false"}
    rets = returns_of(f)
    ctx.floor("R1", "return in get_reward", len(rets), 1)
    # Path-sensitive reading (sa/util.path_summaries): one summary per acyclic path - decisions, returned value and attribute stores, all
    # expressed over the parameters and the attribute values at entry - so guard clauses, early returns, temporaries and flags read the same.
    from ..util import path_summaries
    seen_zero = seen_formula = False
    n_paths = 0
    for ps in path_summaries(f, g):
        if ps.ends != "return":
            continue
        n_paths += 1
        verdict: bool | None = None
        foreign = None
        for t, lab in ps.decisions:
            c = n.canon(t)
            if c in improving:
                verdict = (lab == improving[c]) if verdict is None else verdict and (lab == improving[c])
            elif "Is" in c and "None" in c:
                continue  # the guard against an unset reference
            else:
                foreign = t
        ref_stores = [(v, st) for a, v, st in ps.stores if a == "_curr_best_loss"]
        other_stores = [(a, st) for a, v, st in ps.stores if a != "_curr_best_loss"]
        where = rets[0]
        if foreign is not None or verdict is None:
            ctx.fail("R1.reward", "MABCalibrationEnv.get_reward:branch", f"on the path [{ps.text()}] the reward `{src(ps.ret)[:60]}` is decided by "
                     f"`{src(foreign)[:60] if foreign is not None else 'no comparison of the new best loss with the reference'}` rather than by `best < reference` alone", f, where, [ps.text()])
            continue
        val = n.rat(ps.ret)
        if verdict:
            seen_formula = True
            ctx.check(val.equals(want), "R1.reward", "MABCalibrationEnv.get_reward:improving", "on improvement reward = (reference - best) / reference, computed from the reference held at entry",
                      f"on improvement reward is `{val}`, expected `{want}`" + (" (the reference is overwritten before the reward is computed)" if "__v" in str(val) else ""), f, where, [ps.text()])
            ctx.check(len(ref_stores) == 1 and src(ref_stores[0][0]) == best, "R1.reference", "MABCalibrationEnv.get_reward:reference-value", "on improvement the reference becomes the new best loss (one store)",
                      f"on improvement the reference is stored {len(ref_stores)} time(s): {[src(v)[:40] for v, _ in ref_stores]}", f, ref_stores[0][1] if ref_stores else where, [ps.text()])
        else:
            seen_zero = True
            c = val.const()
            ctx.check(c is not None and c == 0, "R1.reward", "MABCalibrationEnv.get_reward:not-improving", "without improvement reward = 0", f"without improvement reward is `{val}`", f, where, [ps.text()])
            ctx.check(not ref_stores, "R1.reference", "MABCalibrationEnv.get_reward:reference-on-improvement", "the reference moves only when the loss improved",
                      f"the reference best loss is updated also without improvement (`{src(ref_stores[0][1])[:60] if ref_stores else ''}`)", f, ref_stores[0][1] if ref_stores else where, [ps.text()])
        for a, st in other_stores:
            ctx.fail("R1.reference", f"MABCalibrationEnv.get_reward:extra-store:{a}", f"get_reward also stores self.{a} (`{src(st)[:60]}`): state beyond the reference best loss", f, st)
    ctx.notes["get_reward_paths"] = n_paths
    ctx.check(seen_zero and seen_formula, "R1.reward", "MABCalibrationEnv.get_reward:both-branches", "both the improving and the non-improving value exist",
              "one of the two reward branches is missing", f, rets[0])
    # no other writer of the reference except the scheduler's bootstrap store (C10 covers it) and __init__
    base = ctx.func("black_it.schedulers.rl.envs.base:CalibrationEnv.__init__")
    init_st = [s for s in walk_scope(base.node) if isinstance(s, (ast.Assign, ast.AnnAssign)) and is_self_attr(s.targets[0] if isinstance(s, ast.Assign) else s.target, base.self_name, "_curr_best_loss")]
    ok = len(init_st) == 1 and isinstance(init_st[0].value, ast.Constant) and init_st[0].value.value is None
    ctx.check(ok, "R1.reference", "CalibrationEnv.__init__:reference", "the reference starts unset (None)", "the reference does not start as None", base, init_st[0] if init_st else base.node)


def learn(ctx: Context) -> None:
    prog = ctx.prog
    f = ctx.func(f"{AG}.learn")
    from ..util import require_readable
    require_readable(prog, f, ctx.func(f"{AG}.get_step_size"))
    g = CFG(f.node)
    n = normaliser(prog, f)
    if "action" not in f.params or "reward" not in f.params:
        raise AnalysisError("anchor vanished: learn(state, action, reward, next_state)")
    q_stores = [s for s in walk_scope(f.node) if isinstance(s, (ast.Assign, ast.AugAssign)) and any(isinstance(t, ast.Subscript) and is_self_attr(t.value, f.self_name, "Q") for t in (s.targets if isinstance(s, ast.Assign) else [s.target]))]
    c_stores = [s for s in walk_scope(f.node) if isinstance(s, (ast.Assign, ast.AugAssign)) and any(isinstance(t, ast.Subscript) and is_self_attr(t.value, f.self_name, "actions_count") for t in (s.targets if isinstance(s, ast.Assign) else [s.target]))]
    ctx.floor("R2", "Q update in learn", len(q_stores), 1)
    ctx.floor("R2", "count update in learn", len(c_stores), 1)
    for s in [*q_stores, *c_stores]:
        t = s.targets[0] if isinstance(s, ast.Assign) else s.target
        ctx.check(src(t.slice) == "action", "R2.index", f"MABEpsilonGreedy.learn:index:{src(t.value)}", "only the rewarded action's entry is written",
                  f"`{src(s)}` writes entry `{src(t.slice)}`", f, s)
    ctx.check(len(q_stores) == 1 and len(c_stores) == 1, "R2.index", "MABEpsilonGreedy.learn:store-count", "one estimate update and one count update per learn()",
              f"{len(q_stores)} estimate and {len(c_stores)} count updates", f, f.node)
    # whole-attribute rebinding of Q / actions_count inside learn would change other estimates
    rebinds = [s for s in walk_scope(f.node) if isinstance(s, (ast.Assign, ast.AugAssign)) and any(is_self_attr(t, f.self_name, a) for a in ("Q", "actions_count") for t in (s.targets if isinstance(s, ast.Assign) else [s.target]))]
    ctx.check(not rebinds, "R2.index", "MABEpsilonGreedy.learn:no-rebind", "all other estimates stay unchanged", "learn() rebinds the whole estimate/count table", f, rebinds[0] if rebinds else None)
    cs = c_stores[0]
    inc_ok = (isinstance(cs, ast.AugAssign) and isinstance(cs.op, ast.Add) and isinstance(cs.value, ast.Constant) and cs.value.value == 1) or \
        (isinstance(cs, ast.Assign) and n.rat(cs.value).equals(n.rat(parse_expr("self.actions_count[action] + 1"))))
    ctx.check(inc_ok, "R2.count", "MABEpsilonGreedy.learn:count-increment", "count[action] += 1", f"count update is `{src(cs)}`", f, cs)
    qs = q_stores[0]
    step_calls = [c for c in calls_in(f.node) if any(isinstance(t, FuncInfo) and t.name == "get_step_size" for t in prog.resolve_call(f, c))]
    ctx.floor("R2", "get_step_size call in learn", len(step_calls), 1)
    ctx.check([src(a) for a in step_calls[0].args] == ["action"], "R2.step", "MABEpsilonGreedy.learn:step-arg", "step size of the rewarded action", f"step size taken for `{src(step_calls[0])}`", f, step_calls[0])
    step_atom = str(n.rat(step_calls[0]))
    from ..poly import Rat, p_atom
    S = Rat(p_atom(step_atom))
    Q = n.rat(parse_expr("self.Q[action]"))
    R = n.rat(parse_expr("reward"))
    want = Q + S * (R - Q)
    if isinstance(qs, ast.AugAssign):
        newv = (Q + n.rat(qs.value)) if isinstance(qs.op, ast.Add) else (Q - n.rat(qs.value)) if isinstance(qs.op, ast.Sub) else None
    else:
        newv = n.rat(qs.value)
    ctx.check(newv is not None and newv.equals(want), "R2.update", "MABEpsilonGreedy.learn:q-update", "Q[a] <- Q[a] + step * (reward - Q[a])",
              f"estimate update gives `{newv}`, expected `{want}`", f, qs)
    # count is incremented before the step size is taken (1/count must see this visit)
    cn = set(g.nodes_of(cs))
    for x in node_for(g, step_calls[0]):
        p = g.path_avoiding(g.entry, {x}, cn)
        ctx.check(p is None, "R2.order", "MABEpsilonGreedy.learn:count-before-step", "the visit is counted before the step size 1/count is computed",
                  "the step size is taken before the count is incremented (1/0 on the first visit, stale afterwards)", f, step_calls[0], path_text(f, p))
    # every call of learn() counts the visit and then moves the estimate: no path may leave early (an early return on `reward == Q[a]` would
    # freeze the count, so later sample-average steps 1/count are too large)
    from ..util import path_summaries
    n_paths = 0
    for ps in path_summaries(f, g):
        if ps.ends == "raise":
            continue
        n_paths += 1
        names = [a for a, _, _ in ps.stores]
        ci = next((i for i, a in enumerate(names) if a.startswith("actions_count[")), None)
        qi = next((i for i, a in enumerate(names) if a.startswith("Q[")), None)
        ok = ci is not None and qi is not None and ci < qi
        if not ok:
            what = "neither counts the visit nor updates the estimate" if ci is None and qi is None else "does not count the visit" if ci is None else "does not update the estimate" if qi is None \
                else "updates the estimate before counting the visit"
            ctx.fail("R2.every-path", "MABEpsilonGreedy.learn:every-path", f"on the path [{ps.text() or 'straight'}] learn() {what}: the count (and with alpha = -1 every later step size 1/count) "
                     "no longer reflects the number of times the action was learned", f, f.node, [ps.text()])
            break
    else:
        ctx.ok("R2.every-path", "MABEpsilonGreedy.learn:every-path", f"{n_paths} path(s) through learn(): each counts the visit, then updates the estimate")
    # step size
    gs = ctx.func(f"{AG}.get_step_size")
    ns = normaliser(prog, gs)
    rv = returned_value(gs.node.body)
    if rv is None:
        raise AnalysisError(f"{gs.loc(gs.node)}: get_step_size is not an if/else tree of returns; cannot decide R2.step")
    for r in returns_of(gs)[:1]:
        v = rv
        ok = isinstance(v, ast.IfExp)
        if ok:
            test_, flip_ = v.test, False
            while isinstance(test_, ast.UnaryOp) and isinstance(test_.op, ast.Not):
                test_, flip_ = test_.operand, not flip_
            if flip_:
                v = ast.IfExp(test=test_, body=v.orelse, orelse=v.body)
            c = ns.canon(v.test)
            sentinel = c in (ns.canon(parse_expr("self.alpha == -1")), ns.canon(parse_expr("-1 == self.alpha")))
            neg = c in (ns.canon(parse_expr("self.alpha != -1")),)
            a_, b_ = (v.body, v.orelse) if sentinel else (v.orelse, v.body) if neg else (None, None)
            ok = a_ is not None and ns.rat(a_).equals(ns.rat(parse_expr("1 / self.actions_count[action]"))) and ns.rat(b_).equals(ns.rat(parse_expr("self.alpha")))
        ctx.check(ok, "R2.step", "MABEpsilonGreedy.get_step_size:return", "step = 1/count[action] iff alpha == -1 else alpha",
                  f"step size is `{src(v)}`", gs, r)


def policy(ctx: Context) -> None:
    prog = ctx.prog
    f = ctx.func(f"{AG}.policy")
    from ..util import require_readable
    require_readable(prog, f)
    g = CFG(f.node)
    n = normaliser(prog, f)
    nn = normaliser(prog, f, inline_locals=False)
    rets = returns_of(f)
    ctx.floor("R3", "return in policy", len(rets), 1)
    greedy = str(n.rat(parse_expr("np.argmax(self.Q)")))
    explore = {str(n.rat(parse_expr(t))) for t in (
        "self.random_generator.choice(np.arange(self.n_actions), 1)[0]", "self.random_generator.choice(np.arange(self.n_actions))",
        "self.random_generator.integers(self.n_actions)", "self.random_generator.integers(0, self.n_actions)", "self.random_generator.choice(self.n_actions)")}
    u_draw = str(nn.rat(parse_expr("self.random_generator.random()")))
    # Path-sensitive reading: per acyclic path, the decisions (locals substituted forward, so `random_e` reads as the draw itself) and the returned value.
    from types import SimpleNamespace

    from ..util import path_summaries
    n0 = normaliser(prog, f, inline_locals=False)
    kinds = set()
    n_paths = 0
    for ps in path_summaries(f, g):
        if ps.ends != "return":
            continue
        n_paths += 1
        v = ps.ret
        ok = isinstance(v, ast.Call) and dotted(v.func) == "int" and len(v.args) == 1
        ctx.check(ok, "R3.int", "MABEpsilonGreedy.policy:return-int", "returns a Python int", f"returns `{src(v)[:80]}`", f, rets[0])
        inner = v.args[0] if ok else v
        val = str(n0.rat(inner))
        deps = [(SimpleNamespace(ast=t), lab) for t, lab in ps.decisions]
        if val == greedy:
            kinds.add("greedy")
            want_lab = _greedy_label(n0, n0, deps, u_draw)
            ctx.check(want_lab is True, "R3.greedy-edge", "MABEpsilonGreedy.policy:greedy-condition",
                      "greedy exactly when NOT (u < eps), u ~ own generator in [0,1): eps = 0 is always greedy",
                      f"the greedy action is returned on the path [{ps.text()}]", f, rets[0], [ps.text()])
        elif val in explore:
            kinds.add("explore")
            want_lab = _greedy_label(n0, n0, deps, u_draw)
            ctx.check(want_lab is False, "R3.explore-edge", "MABEpsilonGreedy.policy:explore-condition", "explores exactly when u < eps",
                      f"the exploring action is returned on the path [{ps.text()}]", f, rets[0], [ps.text()])
        else:
            ctx.fail("R3.choice", "MABEpsilonGreedy.policy:action-value", f"on the path [{ps.text()}] the action is `{val[:100]}`: neither argmax(Q) nor a uniform draw over range(n_actions)", f, rets[0], [ps.text()])
    ctx.notes["policy_paths"] = n_paths
    ctx.check(kinds == {"greedy", "explore"}, "R3.choice", "MABEpsilonGreedy.policy:both-branches", "both a greedy and an exploring branch exist", f"branches found: {sorted(kinds)}", f, rets[0])
    # randomness only from the agent's own generator
    for c in calls_in(f.node):
        if isinstance(c.func, ast.Attribute) and c.func.attr in ("random", "choice", "integers", "uniform", "rand", "randint", "shuffle", "permutation"):
            from ..poly import single_assignment_env
            recv_e = c.func.value
            if isinstance(recv_e, ast.Name):
                recv_e = single_assignment_env(f.node).get(recv_e.id, recv_e)  # `generator = self.random_generator` bound once
            ctx.check(src(recv_e) == "self.random_generator", "R3.own-generator", f"MABEpsilonGreedy.policy:draw:{c.func.attr}", "draws come from the agent's own generator",
                      f"`{src(c)}` does not draw from the agent's own generator", f, c)
    # valid indices: table sizes follow n_actions
    init = ctx.func(f"{AG}.__init__")
    ni = normaliser(prog, init, inline_locals=False)
    for attr in ("Q", "actions_count"):
        st = [s for s in walk_scope(init.node) if isinstance(s, (ast.Assign, ast.AnnAssign)) and is_self_attr(s.targets[0] if isinstance(s, ast.Assign) else s.target, init.self_name, attr)]
        if not st:
            raise AnalysisError(f"{init.loc(init.node)}: `{attr}` is no longer a table the constructor stores (kept in another structure?); how many entries it has cannot be read")
        v0 = st[0].value
        # [x] * n, [x for _ in range(n)], np.full(n, x) / np.zeros(n) / np.ones(n) all have n entries
        comp_ok = isinstance(v0, ast.ListComp) and len(v0.generators) == 1 and not v0.generators[0].ifs and src(v0.generators[0].iter) in ("range(self.n_actions)", "range(n_actions)")
        np_ok = isinstance(v0, ast.Call) and (dotted(v0.func) or "") in ("np.full", "np.zeros", "np.ones", "numpy.full", "numpy.zeros", "numpy.ones") and v0.args \
            and src(v0.args[0]) in ("self.n_actions", "n_actions", "(self.n_actions,)", "(n_actions,)")
        if np_ok and (dotted(v0.func) or "").endswith("full") and attr == "Q" and (kwarg(v0, "dtype") is None or src(kwarg(v0, "dtype")) not in ("float", "np.float64", "numpy.float64")):
            ctx.fail("R3.sizes", f"MABEpsilonGreedy.__init__:{attr}:dtype", f"`{src(v0)}` takes the dtype of the estimates from the initial value: with an integer initial value the in-place "
                     "update `Q[a] += step * (reward - Q[a])` is truncated to an integer", init, st[0])
        ok = len(st) == 1 and (comp_ok or np_ok or (isinstance(v0, ast.BinOp) and isinstance(v0.op, ast.Mult) and src(v0.right) in ("self.n_actions", "n_actions") and isinstance(v0.left, ast.List)
                                                   and len(v0.left.elts) == 1))
        ctx.check(ok, "R3.sizes", f"MABEpsilonGreedy.__init__:{attr}", f"{attr} has one entry per action", f"{attr} initialised by `{src(st[0].value) if st else '?'}`", init, st[0] if st else init.node)


def _greedy_label(n, nn, deps, u_draw: str) -> bool | None:
    """True if the controlling edge means NOT(u < eps); False if it means u < eps; None if something else."""
    if len(deps) != 1:
        return None
    t, lab = deps[0]
    e = t.ast
    if not (isinstance(e, ast.Compare) and len(e.ops) == 1):
        return None
    left, right = str(n.rat(e.left)), str(n.rat(e.comparators[0]))
    op = type(e.ops[0])
    if left == u_draw and right == "self.eps":
        table = {ast.Lt: False, ast.GtE: True}
    elif right == u_draw and left == "self.eps":
        table = {ast.Gt: False, ast.LtE: True}
    else:
        return None
    if op not in table:
        return None
    res = table[op]
    return res if lab == "true" else not res
