"""Statement-level control-flow graph for the statement kinds the repository uses.

Nodes are simple statements, condition leaves (short-circuit `and`/`or`/`not` are split), loop
headers, `with` enter/exit and handler entries.  `finally` bodies are inlined once per continuation
(normal, exceptional, return, break, continue).  Exceptional edges are added for every node that
contains a call (and for `raise`) when `exc_edges=True`.
"""
from __future__ import annotations

import ast
from dataclasses import dataclass, field
from typing import Callable, Iterable

from .errors import AnalysisError

SIMPLE = (
    ast.Assign, ast.AugAssign, ast.AnnAssign, ast.Expr, ast.Pass, ast.Delete, ast.Assert,
    ast.Import, ast.ImportFrom, ast.Global, ast.Nonlocal, ast.FunctionDef, ast.ClassDef,
    ast.AsyncFunctionDef,
)


@dataclass(eq=False)
class Node:
    idx: int
    kind: str  # entry exit raise_exit stmt test for with with_exit handler return raise break continue join
    ast: ast.AST | None = None
    stmt: ast.stmt | None = None  # owning statement for test/for/with nodes
    succ: list[tuple["Node", str]] = field(default_factory=list)
    pred: list[tuple["Node", str]] = field(default_factory=list)

    def __repr__(self) -> str:
        txt = ""
        if self.ast is not None:
            try:
                txt = ast.unparse(self.ast).split("\n")[0][:60]
            except Exception:  # pragma: no cover
                txt = type(self.ast).__name__
        return f"<{self.idx}:{self.kind} L{getattr(self.ast, 'lineno', '-')} {txt}>"

    @property
    def lineno(self) -> int:
        return getattr(self.ast, "lineno", 0) or 0


def _contains_call(node: ast.AST) -> bool:
    stack = [node]
    while stack:
        n = stack.pop()
        if isinstance(n, (ast.FunctionDef, ast.AsyncFunctionDef, ast.Lambda, ast.ClassDef)) and n is not node:
            continue
        if isinstance(n, (ast.Call, ast.Yield, ast.YieldFrom, ast.Await)):
            return True
        stack.extend(ast.iter_child_nodes(n))
    return False


class CFG:
    def __init__(self, func: ast.FunctionDef, exc_edges: bool = False,
                 may_raise: Callable[[ast.AST], bool] | None = None) -> None:
        self.func = func
        self.exc_edges = exc_edges
        self.may_raise = may_raise or _contains_call
        self.nodes: list[Node] = []
        self.entry = self._new("entry")
        self.exit = self._new("exit")
        self.raise_exit = self._new("raise_exit")
        self._by_ast: dict[int, list[Node]] = {}
        ctx = _Ctx(ret=self.exit, exc=self.raise_exit, brk=None, cont=None)
        first = self._seq(func.body, self.exit, ctx)
        self._edge(self.entry, first, "next")
        self._prune()
        self._dom: dict[Node, set[Node]] | None = None
        self._pdom: dict[Node, set[Node]] | None = None

    # ------------------------------------------------------------------ construction
    def _new(self, kind: str, node: ast.AST | None = None, stmt: ast.stmt | None = None) -> Node:
        n = Node(len(self.nodes), kind, node, stmt)
        self.nodes.append(n)
        if node is not None:
            self._by_ast.setdefault(id(node), []).append(n)
        return n

    def _edge(self, a: Node, b: Node, label: str) -> None:
        if (b, label) not in a.succ:
            a.succ.append((b, label))
            b.pred.append((a, label))

    def _seq(self, stmts: list[ast.stmt], nxt: Node, ctx: "_Ctx") -> Node:
        cur = nxt
        for s in reversed(stmts):
            cur = self._stmt(s, cur, ctx)
        return cur

    def _exc(self, n: Node, ctx: "_Ctx") -> None:
        if self.exc_edges and n.ast is not None and self.may_raise(n.ast):
            self._edge(n, ctx.exc, "exc")

    def _cond(self, expr: ast.expr, t: Node, f: Node, stmt: ast.stmt, ctx: "_Ctx") -> Node:
        if isinstance(expr, ast.BoolOp):
            vals = expr.values
            if isinstance(expr.op, ast.And):
                cur = t
                for v in reversed(vals):
                    cur = self._cond(v, cur, f, stmt, ctx)
                return cur
            cur = f
            for v in reversed(vals):
                cur = self._cond(v, t, cur, stmt, ctx)
            return cur
        if isinstance(expr, ast.UnaryOp) and isinstance(expr.op, ast.Not):
            return self._cond(expr.operand, f, t, stmt, ctx)
        n = self._new("test", expr, stmt)
        self._edge(n, t, "true")
        self._edge(n, f, "false")
        self._exc(n, ctx)
        return n

    def _stmt(self, s: ast.stmt, nxt: Node, ctx: "_Ctx") -> Node:
        if isinstance(s, ast.If):
            body = self._seq(s.body, nxt, ctx)
            orelse = self._seq(s.orelse, nxt, ctx) if s.orelse else nxt
            return self._cond(s.test, body, orelse, s, ctx)
        if isinstance(s, ast.While):
            head = self._new("join", None, s)
            after = self._seq(s.orelse, nxt, ctx) if s.orelse else nxt
            inner = ctx.replace(brk=nxt, cont=head)
            body = self._seq(s.body, head, inner)
            const_true = isinstance(s.test, ast.Constant) and bool(s.test.value) is True
            if const_true:
                test = self._new("test", s.test, s)
                self._edge(test, body, "true")
            else:
                test = self._cond(s.test, body, after, s, ctx)
            self._edge(head, test, "next")
            return head
        if isinstance(s, (ast.For, ast.AsyncFor)):
            head = self._new("for", s.iter, s)
            self._by_ast.setdefault(id(s), []).append(head)
            after = self._seq(s.orelse, nxt, ctx) if s.orelse else nxt
            inner = ctx.replace(brk=nxt, cont=head)
            body = self._seq(s.body, head, inner)
            self._edge(head, body, "loop")
            self._edge(head, after, "exhaust")
            self._exc(head, ctx)
            return head
        if isinstance(s, (ast.With, ast.AsyncWith)):
            wexit = self._new("with_exit", None, s)
            self._edge(wexit, nxt, "next")
            if self.exc_edges:
                self._edge(wexit, ctx.exc, "exc")  # __exit__ itself may raise
            # exceptional leave of the body goes through __exit__ and propagates
            wexit_exc = self._new("with_exit", None, s)
            self._edge(wexit_exc, ctx.exc, "exc")
            wexit_ret = self._new("with_exit", None, s)
            self._edge(wexit_ret, ctx.ret, "next")
            inner = ctx.replace(exc=wexit_exc, ret=wexit_ret)
            if ctx.brk is not None:
                wb = self._new("with_exit", None, s)
                self._edge(wb, ctx.brk, "next")
                inner = inner.replace(brk=wb)
            if ctx.cont is not None:
                wc = self._new("with_exit", None, s)
                self._edge(wc, ctx.cont, "next")
                inner = inner.replace(cont=wc)
            body = self._seq(s.body, wexit, inner)
            cur = body
            for item in reversed(s.items):
                w = self._new("with", item.context_expr, s)
                self._by_ast.setdefault(id(s), []).append(w)
                self._edge(w, cur, "next")
                self._exc(w, ctx)
                cur = w
            return cur
        if isinstance(s, ast.Try):
            return self._try(s, nxt, ctx)
        if isinstance(s, ast.Return):
            n = self._new("return", s, s)
            self._edge(n, ctx.ret, "next")
            self._exc(n, ctx)
            return n
        if isinstance(s, ast.Raise):
            n = self._new("raise", s, s)
            self._edge(n, ctx.exc, "exc")
            return n
        if isinstance(s, ast.Break):
            n = self._new("break", s, s)
            if ctx.brk is None:
                raise AnalysisError("break outside loop")
            self._edge(n, ctx.brk, "next")
            return n
        if isinstance(s, ast.Continue):
            n = self._new("continue", s, s)
            if ctx.cont is None:
                raise AnalysisError("continue outside loop")
            self._edge(n, ctx.cont, "next")
            return n
        if isinstance(s, SIMPLE):
            n = self._new("stmt", s, s)
            self._edge(n, nxt, "next")
            if not isinstance(s, (ast.FunctionDef, ast.AsyncFunctionDef, ast.ClassDef)):
                self._exc(n, ctx)
            return n
        if isinstance(s, ast.Match):  # pragma: no cover - not used by the repository
            raise AnalysisError("match statement not supported by the CFG builder")
        raise AnalysisError(f"unsupported statement kind {type(s).__name__}")

    def _try(self, s: ast.Try, nxt: Node, ctx: "_Ctx") -> Node:
        def fin(target: Node, label: str = "next") -> Node:
            """Inline a copy of the finally body that continues to `target`."""
            if not s.finalbody:
                return target
            j = self._new("join", None, s)
            self._edge(j, target, label)
            return self._seq(s.finalbody, j, ctx)

        after = fin(nxt)
        out_exc = fin(ctx.exc, "exc") if s.finalbody else ctx.exc
        out_ret = fin(ctx.ret) if s.finalbody else ctx.ret
        out_brk = (fin(ctx.brk) if s.finalbody else ctx.brk) if ctx.brk is not None else None
        out_cont = (fin(ctx.cont) if s.finalbody else ctx.cont) if ctx.cont is not None else None
        outer = _Ctx(ret=out_ret, exc=out_exc, brk=out_brk, cont=out_cont)
        # handlers
        dispatch = self._new("join", None, s) if s.handlers else None
        if dispatch is not None:
            catch_all = False
            for h in s.handlers:
                hn = self._new("handler", h, s)
                body = self._seq(h.body, after, outer)
                self._edge(hn, body, "next")
                self._edge(dispatch, hn, "exc")
                if h.type is None or (isinstance(h.type, ast.Name) and h.type.id == "BaseException"):
                    catch_all = True
            if not catch_all:
                self._edge(dispatch, out_exc, "exc")
        body_ctx = _Ctx(ret=out_ret, exc=dispatch if dispatch is not None else out_exc, brk=out_brk, cont=out_cont)
        orelse = self._seq(s.orelse, after, outer) if s.orelse else after
        # force exceptional edges inside a try body: a handler is only meaningful if something raises
        saved = self.exc_edges
        self.exc_edges = True
        body = self._seq(s.body, orelse, body_ctx)
        self.exc_edges = saved
        return body

    def _prune(self) -> None:
        seen = set()
        stack = [self.entry]
        while stack:
            n = stack.pop()
            if n in seen:
                continue
            seen.add(n)
            stack.extend(t for t, _ in n.succ)
        for n in self.nodes:
            if n not in seen:
                for t, lab in n.succ:
                    t.pred = [(p, l) for p, l in t.pred if p is not n]
                n.succ = []
        self.reachable = seen
        self.live = [n for n in self.nodes if n in seen]

    # ------------------------------------------------------------------ queries
    def nodes_of(self, node: ast.AST) -> list[Node]:
        """CFG nodes whose statement/expression *is* `node` (several when inlined in finally)."""
        return [n for n in self._by_ast.get(id(node), []) if n in self.reachable]

    def nodes_containing(self, node: ast.AST) -> list[Node]:
        """CFG nodes whose AST contains `node`."""
        out = []
        for n in self.live:
            if n.ast is None:
                continue
            for sub in ast.walk(n.ast):
                if sub is node:
                    out.append(n)
                    break
        return out

    def find(self, pred: Callable[[Node], bool]) -> list[Node]:
        return [n for n in self.live if pred(n)]

    def path_avoiding(self, start: Node, goals: Iterable[Node], avoid: Iterable[Node],
                      labels: set[str] | None = None, include_start: bool = False,
                      edge_ok: Callable[[Node, Node, str], bool] | None = None) -> list[Node] | None:
        """A path start -> some goal that passes through no node of `avoid` (start itself exempt)."""
        goals = set(goals)
        avoid = set(avoid)
        prev: dict[Node, Node | None] = {}
        stack: list[Node] = []
        if include_start and start in goals:
            return [start]
        for t, lab in start.succ:
            if labels is not None and lab not in labels:
                continue
            if edge_ok is not None and not edge_ok(start, t, lab):
                continue
            if t in avoid or t in prev:
                continue
            prev[t] = None
            stack.append(t)
        while stack:
            n = stack.pop()
            if n in goals:
                path = [n]
                while prev[path[-1]] is not None:
                    path.append(prev[path[-1]])  # type: ignore[arg-type]
                return [start, *reversed(path)]
            for t, lab in n.succ:
                if labels is not None and lab not in labels:
                    continue
                if edge_ok is not None and not edge_ok(n, t, lab):
                    continue
                if t in avoid or t in prev:
                    continue
                prev[t] = n
                stack.append(t)
        return None

    def reachable_from(self, start: Node, labels: set[str] | None = None) -> set[Node]:
        seen: set[Node] = set()
        stack = [t for t, lab in start.succ if labels is None or lab in labels]
        while stack:
            n = stack.pop()
            if n in seen:
                continue
            seen.add(n)
            stack.extend(t for t, lab in n.succ if labels is None or lab in labels)
        return seen

    def dominators(self) -> dict[Node, set[Node]]:
        if self._dom is None:
            self._dom = _dominators(self.live, self.entry, lambda n: [p for p, _ in n.pred])
        return self._dom

    def postdominators(self, cut: Node | None = None) -> dict[Node, set[Node]]:
        """Post-dominators w.r.t. a virtual sink joining normal and exceptional exit.

        With `cut` (a loop header) the back edges into it are redirected to the sink, which gives the
        post-dominators of *one iteration* of that loop.
        """
        key = cut.idx if cut is not None else -1
        cache = self.__dict__.setdefault("_pdom_cache", {})
        if key not in cache:
            sink = Node(-1, "sink")
            back_src: set[Node] = set()
            if cut is not None:
                reach = self.reachable_from(cut)
                back_src = {p for p, _ in cut.pred if p in reach}

            def preds(n: Node) -> list[Node]:
                if n is sink:
                    return []
                out = []
                for t, _ in n.succ:
                    if t is cut and n in back_src:
                        out.append(sink)
                    else:
                        out.append(t)
                if n is self.exit or n is self.raise_exit:
                    out.append(sink)
                return out
            live = [*self.live, sink]
            pd = _dominators(live, sink, preds)
            for k in pd:
                pd[k].discard(sink)
            pd.pop(sink, None)
            cache[key] = (pd, back_src)
        return cache[key][0]

    def dominates(self, a: Node, b: Node) -> bool:
        return a in self.dominators().get(b, set())

    def control_deps(self, n: Node, cut: Node | None = None) -> set[tuple[Node, str]]:
        """Direct control dependences of n: (branch node, label of the edge that commits to n)."""
        pdom = self.postdominators(cut)
        back_src = self.__dict__["_pdom_cache"][cut.idx if cut is not None else -1][1]
        out: set[tuple[Node, str]] = set()
        for b in self.live:
            if len(b.succ) < 2:
                continue
            for s, lab in b.succ:
                if cut is not None and s is cut and b in back_src:
                    continue
                if (n is s or n in pdom.get(s, set())) and not (n is not b and n in pdom.get(b, set())):
                    out.add((b, lab))
        return out

    def control_closure(self, n: Node, cut: Node | None = None) -> set[tuple[Node, str]]:
        """Transitive control dependences (within one iteration of the loop headed by `cut`, if given)."""
        out: set[tuple[Node, str]] = set()
        work = [n]
        seen = {n}
        while work:
            cur = work.pop()
            for b, lab in self.control_deps(cur, cut):
                out.add((b, lab))
                if b not in seen:
                    seen.add(b)
                    work.append(b)
        return out

    def loops(self) -> list[Node]:
        return [n for n in self.live if n.kind == "for" or (n.kind == "join" and isinstance(n.stmt, ast.While))]

    def loop_body_nodes(self, head: Node) -> set[Node]:
        """Nodes inside the loop whose header is `head` (those that can reach head again)."""
        body: set[Node] = set()
        for n in self.reachable_from(head):
            if head in self.reachable_from(n) or n is head:
                body.add(n)
        return body

    def dump(self) -> str:  # pragma: no cover - debugging aid
        lines = []
        for n in self.live:
            lines.append(f"{n!r} -> " + ", ".join(f"{t.idx}[{lab}]" for t, lab in n.succ))
        return "\n".join(lines)


@dataclass
class _Ctx:
    ret: Node
    exc: Node
    brk: Node | None
    cont: Node | None

    def replace(self, **kw: Node | None) -> "_Ctx":
        d = {"ret": self.ret, "exc": self.exc, "brk": self.brk, "cont": self.cont}
        d.update(kw)
        return _Ctx(**d)  # type: ignore[arg-type]


def _dominators(nodes: list[Node], root: Node, preds: Callable[[Node], list[Node]]) -> dict[Node, set[Node]]:
    allset = set(nodes)
    dom: dict[Node, set[Node]] = {n: set(allset) for n in nodes}
    dom[root] = {root}
    changed = True
    while changed:
        changed = False
        for n in nodes:
            if n is root:
                continue
            ps = [p for p in preds(n) if p in dom]
            if ps:
                new = set.intersection(*(dom[p] for p in ps)) | {n}
            else:
                new = {n}
            if new != dom[n]:
                dom[n] = new
                changed = True
    return dom
