"""Static-analysis engine deciding the black-it properties C01-C20 from /repo's source.

Nothing in this package imports or executes `black_it`; every verdict is computed from the parsed
source text of the working tree (or of an in-memory overlay of it, for self-test variants).
"""
