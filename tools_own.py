"""Developer tool: run selected checks on selected changes (as overlays).  usage: tools_own.py <dir> <props comma|own> [sid-prefix ...]
prints one line per (change, check): verdict + first finding keys."""
import multiprocessing as mp
import os
import pathlib
import sys

sys.path.insert(0, str(pathlib.Path(__file__).parent))


def one(args):
    d, sid, prop = args
    os.environ["SEEDED_DIR"] = d
    import tools_matrix as tm
    tm.SEEDED = pathlib.Path(d)
    return tm.one((sid, prop))


def main():
    d, props = sys.argv[1], sys.argv[2]
    only = sys.argv[3:]
    sids = sorted(s for s in os.listdir(d) if (pathlib.Path(d) / s / "patch.diff").exists() and (not only or any(s.startswith(o) for o in only)))
    jobs = []
    for s in sids:
        ps = [s[:3]] if props == "own" else props.split(",")
        jobs += [(d, s, p) for p in ps if p.startswith("C")]
    with mp.Pool(min(16, max(1, len(jobs)))) as pool:
        for sid, prop, verdict, keys in pool.imap(one, jobs):
            print(f"{sid:16s} {prop} {verdict:10s} {'; '.join(k[:110] for k in keys[:3])}")


if __name__ == "__main__":
    main()
