"""Regenerate MANIFEST.json from the property modules that exist (run by hand, not by checks)."""
import importlib
import json
import pathlib
import sys

sys.path.insert(0, str(pathlib.Path(__file__).parent))
VERIF = pathlib.Path(__file__).parent
props = [json.loads(l) for l in (VERIF / "properties.jsonl").read_text().splitlines() if l.strip()]
NOT_BUILT = json.loads((VERIF / "not_applicable.json").read_text()) if (VERIF / "not_applicable.json").exists() else {}
checks = []
na = []
for p in props:
    pid = p["id"]
    modfile = VERIF / "sa" / "props" / f"{pid.lower()}.py"
    if modfile.exists() and pid not in NOT_BUILT:
        mod = importlib.import_module(f"sa.props.{pid.lower()}")
        checks.append({
            "property_id": pid,
            "quick_cmd": f"/venv/bin/python -m sa.check {pid} --tier quick",
            "thorough_cmd": f"/venv/bin/python -m sa.check {pid} --tier thorough",
            "evidence_file": f"/verif/evidence/{pid}.json",
            "replay_cmd_template": f"/venv/bin/python -m sa.check {pid} --replay {{path}}",
            "engine": "sa",
            "level_claimed": {"category": "other", "text": mod.LEVEL_TEXT, "design_ref": f"DESIGN.md section 4, {pid}"},
            "level_note": getattr(mod, "LEVEL_NOTE", "Trusted base: Python semantics of the statement kinds handled by sa/cfg.py; the numpy view/copy and in-place tables of sa/alias.py; third-party callees are pure on their arguments unless tabled; the rule tables (published formulas, documented orders) written in the rule modules; the engine itself (kept honest by must-fire fixtures and firing/silent self-test variants)."),
            "technique": "static analysis: " + mod.TECHNIQUE,
        })
    else:
        na.append({"property_id": pid, "reason": NOT_BUILT.get(pid, "static check not built yet in this revision of /verif (planned in DESIGN.md section 4); not claimed until it exists")})
manifest = {
    "version": 1,
    "setup_cmd": "/venv/bin/python -m compileall -q /verif/sa",
    "hooks": {
        "guard": "BANCADITALIA_BLACK_IT_VERIF",
        "enable": "none needed: the checks read /repo's working tree as source text; no hook or instrumentation was added to /repo",
        "baseline_off_cmd": "cd /repo && /venv/bin/python -m pytest -ra -q -p no:cacheprovider --timeout=900 --continue-on-collection-errors",
        "source_commits": [],
        "add_only": True,
    },
    "engines": [{"name": "sa", "path": "/verif/sa", "serves_properties": [c["property_id"] for c in checks],
                 "kind_free_text": "repository-specific static analyser on stdlib ast: program model with MRO/property/call resolution, statement CFG with dominance/control dependence, flow-sensitive alias and parameter-mutation summaries, formula normal form, finite abstract evaluation of guards, extraction and product of thread communication automata"}],
    "checks": checks,
    "not_applicable": na,
    "notes": "All checks are static: they parse /repo/black_it on every run and never import or execute it. Exit 0 = held (KNOWN-FINDING lines possible), 1 = VIOLATION, 2 = ANALYSIS-ERROR (analysis could not be carried out; never a pass). Known findings: /verif/known_findings.json.",
}
(VERIF / "MANIFEST.json").write_text(json.dumps(manifest, indent=1) + "\n")
print(len(checks), "claimed;", len(na), "not applicable")
